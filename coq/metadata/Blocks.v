(* metadata/Blocks.v — byte-level model of the seven FLAC metadata block types and the
   4-byte block header: readers (the FromBitStream impls), writers (the ToBitStream impls) and the size each
   block reports for itself (MetadataBlock::bytes, the counting pass of BlockHeader::new).
   Mirrors /repo/src/metadata/mod.rs and /repo/src/metadata/cuesheet.rs (line anchors at
   each definition; the tree modelled is the worktree after the fix: commits listed in
   NOTES.md).  No proofs in this file.

   Conventions.
   * Option<NonZero<uK>> is modelled as N with 0 <-> None (bitstream-io reads it with
     `NonZero::new`, writes `map(get).unwrap_or(0)`): an isomorphism, so equality is kept.
   * NonZero<u8> read in 3 bits is value+1 (bitstream-io Integer for NonZero).
   * Strings are their UTF-8 byte sequences; validity is the Section function utf8_valid
     (std::string::String::from_utf8 / str::from_utf8).
   * usize is 64 bits (u32 -> usize `try_into().unwrap()` cannot fail). *)
From FlacMeta Require Export Bytes.
Open Scope N_scope.

(* ---- constants (re-checked against the source by tools/gen_metadata.py -> GenMeta.v) *)
Definition BLOCKSIZE_MAX : N := 16777215.        (* mod.rs:377  (1 << 24) - 1 *)
Definition SEEK_MAX_POINTS : N := 932067.        (* mod.rs:1989 (1 << 24) / 18 *)
Definition CATALOG_LEN : N := 128.               (* mod.rs:2848 *)
Definition SAMPLES_PER_SECTOR : N := 588.        (* cuesheet.rs:113 44100 / 75 *)
Definition CDDA_MAX_TRACKS : N := 99.            (* mod.rs:2815 Contiguous<99, TrackCDDA> *)
Definition NONCDDA_MAX_TRACKS : N := 254.        (* mod.rs:2833 Contiguous<254, TrackNonCDDA> *)
Definition CDDA_MAX_INDEX : N := 100.            (* cuesheet.rs:426 IndexVec<100, CDDAOffset> *)
Definition NONCDDA_MAX_INDEX : N := 255.         (* cuesheet.rs:479 IndexVec<255, u64> (after fix F-C11b) *)
Definition LEADOUT_CDDA : N := 170.              (* cuesheet.rs:219 *)
Definition LEADOUT_NONCDDA : N := 255.           (* cuesheet.rs:222 *)
Definition U64_MAX : N := 18446744073709551615.

(* ---- block values *)
Inductive btype := TStreaminfo | TPadding | TApplication | TSeekTable | TVorbis | TCuesheet | TPicture.

Record header := mkHeader { h_last : bool; h_type : btype; h_size : N }.

Record streaminfo := mkSI {
  si_minb : N; si_maxb : N;          (* u16 *)
  si_minf : N; si_maxf : N;          (* Option<NonZero<u32>>, 0 = None *)
  si_rate : N;                       (* u32 *)
  si_ch : N;                         (* NonZero<u8> *)
  si_bps : N;                        (* SignedBitCount<32>: 1..32 *)
  si_total : N;                      (* Option<NonZero<u64>>, 0 = None *)
  si_md5 : option (list N) }.        (* Option<[u8; 16]> *)

Record application := mkApp { app_id : N; app_data : list N }.

Inductive seekpoint :=
| SPDefined (sample_offset byte_offset frame_samples : N)
| SPPlaceholder.

Record vorbis := mkVC { vc_vendor : list N; vc_fields : list (list N) }.

Inductive isrc := IsrcNone | IsrcStr (s : list N).
Record index := mkIx { ix_off : N; ix_num : N }.
Record indexvec := mkIV { iv_00 : option index; iv_01 : index; iv_rest : list index }.
Record track := mkTrack {
  tr_off : N; tr_num : N; tr_isrc : isrc; tr_non_audio : bool; tr_pre : bool; tr_ix : indexvec }.
Record leadout := mkLO { lo_off : N; lo_isrc : isrc; lo_non_audio : bool; lo_pre : bool }.
Inductive cuesheet :=
| CueCDDA (catalog : option (list N)) (lead_in : N) (tracks : list track) (lo : leadout)
| CueNonCDDA (catalog : list N) (tracks : list track) (lo : leadout).

Record picture := mkPic {
  pic_type : N;                      (* PictureType discriminant 0..20 *)
  pic_mime : list N; pic_desc : list N;
  pic_w : N; pic_h : N; pic_depth : N;
  pic_colors : N;                    (* Option<NonZero<u32>>, 0 = None *)
  pic_data : list N }.

Inductive block :=
| BStreaminfo (s : streaminfo)
| BPadding (size : N)
| BApplication (a : application)
| BSeekTable (points : list seekpoint)
| BVorbis (v : vorbis)
| BCuesheet (c : cuesheet)
| BPicture (p : picture).

Definition block_type (b : block) : btype :=
  match b with
  | BStreaminfo _ => TStreaminfo | BPadding _ => TPadding | BApplication _ => TApplication
  | BSeekTable _ => TSeekTable | BVorbis _ => TVorbis | BCuesheet _ => TCuesheet | BPicture _ => TPicture
  end.

(* ---- block header, mod.rs:245-334, 406-420 *)
Definition btype_code (t : btype) : N :=
  match t with
  | TStreaminfo => 0 | TPadding => 1 | TApplication => 2 | TSeekTable => 3
  | TVorbis => 4 | TCuesheet => 5 | TPicture => 6
  end.
(* mod.rs:304-316: 7..=126 ReservedMetadataBlock, 127 InvalidMetadataBlock *)
Definition btype_of_code (c : N) : res btype :=
  match c with
  | 0 => Ok TStreaminfo | 1 => Ok TPadding | 2 => Ok TApplication | 3 => Ok TSeekTable
  | 4 => Ok TVorbis | 5 => Ok TCuesheet | 6 => Ok TPicture
  | _ => Err EOther
  end.

(* mod.rs:248-254: last = 1 bit, type = 7 bits, size = 24 bits *)
Definition read_header : parser header :=
  b0 <~ take 1 ;;
  match rd 1 (bits_of_bytes b0) with
  | None => pfail EEof
  | Some (l, s1) =>
    match rd 7 s1 with
    | None => pfail EEof
    | Some (c, _) =>
      ty <~ plift (btype_of_code c) ;;
      size <~ read_be 3 ;;
      pret (mkHeader (l =? 1) ty size)
    end
  end.

(* mod.rs:260-265 *)
Definition write_header (h : header) : list N :=
  bytes_of_bits 1 (wr 1 (b2n (h_last h)) ++ wr 7 (btype_code (h_type h))) ++ be_bytes 3 (h_size h).

(* ---- bitstream-io BitCount / SignedBitCount partial operations (lib.rs:1391-1422, 1483-1491) *)
Definition bitcount_checked_add (new_max bits add : N) : option N :=
  if bits + add <? 2 ^ 32 then (if bits + add <=? new_max then Some (bits + add) else None) else None.
Definition bitcount_checked_sub (new_max bits sub : N) : option N :=
  if sub <=? bits then (if bits - sub <=? new_max then Some (bits - sub) else None) else None.
Definition signed_count (bits : N) : option N := if bits =? 0 then None else Some bits.

(* ---- STREAMINFO, mod.rs:1716-1760 *)
Definition read_streaminfo : parser streaminfo :=
  minb <~ read_be 2 ;;
  maxb <~ read_be 2 ;;
  minf <~ read_be 3 ;;
  maxf <~ read_be 3 ;;
  (* 20 + 3 + 5 + 36 bits = 8 bytes; the reader is byte aligned here *)
  packed <~ take 8 ;;
  let s := bits_of_bytes packed in
  match rd 20 s with None => pfail EEof | Some (rate, s1) =>
  match rd 3 s1 with None => pfail EEof | Some (c, s2) =>
  match rd 5 s2 with None => pfail EEof | Some (cnt, s3) =>
  match rd 36 s3 with None => pfail EEof | Some (total, _) =>
  (* read_count::<0b11111>().checked_add(1).and_then(signed_count).unwrap(), mod.rs:1727-1731 *)
  match (match bitcount_checked_add 32 cnt 1 with Some c1 => signed_count c1 | None => None end) with
  | None => ppanic PUnwrap
  | Some bps =>
    md5 <~ take 16 ;;
    pret (mkSI minb maxb minf maxf rate (c + 1) bps total
               (if all_zero md5 then None else Some md5))
  end end end end end.

(* mod.rs:1743-1759 with the repair of F-C11a (the count is decremented as an unsigned
   BitCount, so 1 bit-per-sample is written as 0): `write::<24>` etc. fail with
   io::ErrorKind::InvalidInput when the value does not fit. *)
Definition write_streaminfo (si : streaminfo) : res (list N) :=
  if negb (si_minf si <? 2 ^ 24) then Err EIo else
  if negb (si_maxf si <? 2 ^ 24) then Err EIo else
  if negb (si_rate si <? 2 ^ 20) then Err EIo else
  if negb (si_ch si - 1 <? 8) then Err EIo else
  match bitcount_checked_sub 31 (si_bps si) 1 with
  | None => Panic PUnwrap
  | Some cnt =>
    if negb (si_total si <? 2 ^ 36) then Err EIo else
    Ok (be_bytes 2 (si_minb si) ++ be_bytes 2 (si_maxb si) ++
        be_bytes 3 (si_minf si) ++ be_bytes 3 (si_maxf si) ++
        bytes_of_bits 8 (wr 20 (si_rate si) ++ wr 3 (si_ch si - 1) ++ wr 5 cnt ++ wr 36 (si_total si)) ++
        match si_md5 si with Some m => m | None => zerosN 16 end)
  end.

(* ---- PADDING, mod.rs:1816-1832 *)
Definition read_padding (size : N) : parser N := _ <~ skip size ;; pret size.
Definition write_padding (size : N) : res (list N) := Ok (zerosN size).

(* ---- APPLICATION, mod.rs:1865-1890 *)
Definition read_application (size : N) : parser application :=
  id <~ read_be 4 ;;
  if size <? 4 then pfail EOther (* InsufficientApplicationBlock *)
  else data <~ take (size - 4) ;; pret (mkApp id data).
Definition write_application (a : application) : res (list N) :=
  Ok (be_bytes 4 (app_id a) ++ app_data a).

(* ---- Contiguous<MAX, T>, mod.rs:2672-2711 *)
Section Contiguous.
  Context {T : Type}.
  Variable valid_first : T -> bool.
  Variable is_next : T -> T -> res bool.      (* is_next self previous *)
  Variable MAX : N.

  (* try_push; the items are kept newest first together with their number *)
  Definition try_push (rev_items : list T) (len : N) (item : T) : res (option (list T)) :=
    if len <? MAX then
      (ok <- match rev_items with
             | [] => Ok (valid_first item)
             | last :: _ => is_next item last
             end ;;
       Ok (if ok then Some (item :: rev_items) else None))%res
    else Ok None.

  Variable p : parser T.

  (* try_collect((0..n).map(|_| r.parse())): parse, push, repeat.  `fuel` is the input
     itself: every item consumes at least one byte, so it never runs out (PFuel is shown
     unreachable in Blocks_proofs.v).  NonContiguous is the caller's error (EOther). *)
  Fixpoint try_collect (fuel : list N) (n : N) (rev_items : list T) (len : N) (s : list N)
    : res (list T * list N) :=
    if n =? 0 then Ok (rev rev_items, s) else
    match p s with
    | Err e => Err e
    | Panic k => Panic k
    | Ok (item, s') =>
      match try_push rev_items len item with
      | Err e => Err e
      | Panic k => Panic k
      | Ok None => Err EOther
      | Ok (Some items') =>
        match fuel with
        | [] => Panic PFuel
        | _ :: f => try_collect f (N.pred n) items' (N.succ len) s'
        end
      end
    end.

  (* Contiguous::try_from(Vec) / is_contiguous, mod.rs:2734-2761: the invariant of a value *)
  Fixpoint contiguous_from (prev : T) (l : list T) : bool :=
    match l with
    | [] => true
    | x :: r => match is_next x prev with Ok true => contiguous_from x r | _ => false end
    end.
  Definition is_contiguous (l : list T) : bool :=
    match l with [] => true | x :: r => valid_first x && contiguous_from x r end.
End Contiguous.

(* (0..n).map(|_| read one).collect::<Result<Vec<_>, _>>() *)
Section ParseN.
  Context {T : Type}.
  Variable p : parser T.
  Fixpoint parse_n (fuel : list N) (n : N) (s : list N) : res (list T * list N) :=
    if n =? 0 then Ok ([], s) else
    match p s with
    | Err e => Err e
    | Panic k => Panic k
    | Ok (x, s') =>
      match fuel with
      | [] => Panic PFuel
      | _ :: f =>
        match parse_n f (N.pred n) s' with
        | Ok (xs, s'') => Ok (x :: xs, s'')
        | Err e => Err e
        | Panic k => Panic k
        end
      end
    end.
End ParseN.

(* ---- SEEKTABLE, mod.rs:1995-2139 *)
Definition read_seekpoint : parser seekpoint :=
  so <~ read_be 8 ;;
  if so =? U64_MAX then
    _ <~ read_be 8 ;; _ <~ read_be 2 ;; pret SPPlaceholder
  else
    bo <~ read_be 8 ;; fs <~ read_be 2 ;; pret (SPDefined so bo fs).

(* mod.rs:2072-2097 *)
Definition seekpoint_valid_first (_ : seekpoint) : bool := true.
Definition seekpoint_is_next (self prev : seekpoint) : res bool :=
  Ok match self with
     | SPDefined o _ _ => match prev with SPDefined po _ _ => po <? o | SPPlaceholder => false end
     | SPPlaceholder => true
     end.

Definition read_seektable (size : N) : parser (list seekpoint) :=
  fun s =>
  if size mod 18 =? 0 then
    try_collect seekpoint_valid_first seekpoint_is_next SEEK_MAX_POINTS read_seekpoint s (size / 18) [] 0 s
  else Err EOther. (* InvalidSeekTableSize *)

Definition write_seekpoint (sp : seekpoint) : list N :=
  match sp with
  | SPDefined so bo fs => be_bytes 8 so ++ be_bytes 8 bo ++ be_bytes 2 fs
  | SPPlaceholder => be_bytes 8 U64_MAX ++ be_bytes 8 0 ++ be_bytes 2 0
  end.

(* mod.rs:2013-2035: offsets of defined points must increase (placeholders are skipped
   over); after fix a defined point may not use the placeholder's sample number. *)
Fixpoint write_seekpoints (last_offset : option N) (l : list seekpoint) : res (list N) :=
  match l with
  | [] => Ok []
  | sp :: r =>
    match sp with
    | SPDefined so _ _ =>
      if so =? U64_MAX then Err EOther else
      match last_offset with
      | Some lo => if lo <? so
                   then (rest <- write_seekpoints (Some so) r ;; Ok (write_seekpoint sp ++ rest))%res
                   else Err EOther (* InvalidSeekTablePoint *)
      | None => (rest <- write_seekpoints (Some so) r ;; Ok (write_seekpoint sp ++ rest))%res
      end
    | SPPlaceholder =>
      (rest <- write_seekpoints last_offset r ;; Ok (write_seekpoint sp ++ rest))%res
    end
  end.
Definition write_seektable (l : list seekpoint) : res (list N) := write_seekpoints None l.

(* ---- strings *)
Section Utf8.
Variable utf8_valid : list N -> bool.

(* ---- VORBIS_COMMENT, mod.rs:2494-2535: little-endian u32 lengths *)
Definition read_vc_string : parser (list N) :=
  size <~ read_le 4 ;;
  bs <~ take size ;;
  if utf8_valid bs then pret bs else pfail EOther.

Definition read_vorbis : parser vorbis :=
  fun s =>
  (vendor <~ read_vc_string ;;
   count <~ read_le 4 ;;
   fields <~ (fun s' => parse_n read_vc_string s count s') ;;
   pret (mkVC vendor fields)) s.

Definition write_vc_string (s : list N) : res (list N) :=
  if lenN s <? 2 ^ 32 then Ok (le_bytes 4 (lenN s) ++ s) else Err EOther. (* ExcessiveStringLength *)
Fixpoint write_vc_strings (l : list (list N)) : res (list N) :=
  match l with
  | [] => Ok []
  | x :: r => (a <- write_vc_string x ;; b <- write_vc_strings r ;; Ok (a ++ b))%res
  end.
Definition write_vorbis (v : vorbis) : res (list N) :=
  (a <- write_vc_string (vc_vendor v) ;;
   if lenN (vc_fields v) <? 2 ^ 32 then
     (b <- write_vc_strings (vc_fields v) ;; Ok (a ++ le_bytes 4 (lenN (vc_fields v)) ++ b))
   else Err EOther)%res. (* ExcessiveVorbisEntries *)

(* ---- PICTURE, mod.rs:3986-4031, 4108-4167 *)
Definition read_prefixed : parser (list N) := size <~ read_be 4 ;; take size.
Definition read_picture : parser picture :=
  ty <~ read_be 4 ;;
  if 20 <? ty then pfail EOther (* InvalidPictureType *) else
  mime <~ read_prefixed ;;
  if negb (utf8_valid mime) then pfail EOther else
  desc <~ read_prefixed ;;
  if negb (utf8_valid desc) then pfail EOther else
  w <~ read_be 4 ;; h <~ read_be 4 ;; d <~ read_be 4 ;; c <~ read_be 4 ;;
  data <~ read_prefixed ;;
  pret (mkPic ty mime desc w h d c data).

Definition write_prefixed (field : list N) : res (list N) :=
  if lenN field <? 2 ^ 32 then Ok (be_bytes 4 (lenN field) ++ field) else Err EOther.
Definition write_picture (p : picture) : res (list N) :=
  (m <- write_prefixed (pic_mime p) ;;
   d <- write_prefixed (pic_desc p) ;;
   x <- write_prefixed (pic_data p) ;;
   Ok (be_bytes 4 (pic_type p) ++ m ++ d ++
       be_bytes 4 (pic_w p) ++ be_bytes 4 (pic_h p) ++ be_bytes 4 (pic_depth p) ++ be_bytes 4 (pic_colors p) ++ x))%res.

(* ---- CUESHEET, mod.rs:3417-3541, cuesheet.rs *)
Definition is_digit (b : N) : bool := (48 <=? b) && (b <=? 57).
Definition is_alpha (b : N) : bool := ((65 <=? b) && (b <=? 90)) || ((97 <=? b) && (b <=? 122)).
Definition is_alnum (b : N) : bool := is_digit b || is_alpha b.

(* cuesheet.rs:265-268 filter_split: split_at_checked(amt) then all chars satisfy f.  On
   valid UTF-8 a split inside a character puts a non-ASCII byte into the prefix, which f
   rejects, so the byte-level test is the same. *)
Definition filter_split (s : list N) (amt : N) (f : N -> bool) : option (list N) :=
  match splitN amt s with
  | Some (pre, rest) => if forallb f pre then Some rest else None
  | None => None
  end.

(* cuesheet.rs:259-284 ISRCString::from_str (after fix F-C11c/d: exactly 12 characters) *)
Definition isrc_from_str (s : list N) : option (list N) :=
  let isrc := if existsb (fun b => b =? 45) s then filter (fun b => negb (b =? 45)) s else s in
  match filter_split isrc 2 is_alpha with None => None | Some s1 =>
  match filter_split s1 3 is_alnum with None => None | Some s2 =>
  match filter_split s2 2 is_digit with None => None | Some s3 =>
  match filter_split s3 5 is_digit with None => None | Some s4 =>
  match s4 with [] => Some isrc | _ => None end
  end end end end.

(* what ISRCString::from_str guarantees of the string it stores: 12 characters,
   2 letters, 3 alphanumerics, 7 digits *)
Definition wf_isrc (s : list N) : Prop :=
  lenN s = 12 /\ forallb is_alpha (firstn 2 s) = true /\ forallb is_alnum (firstn 3 (skipn 2 s)) = true /\
  forallb is_digit (skipn 5 s) = true.

(* cuesheet.rs:305-318 *)
Definition read_isrc : parser isrc :=
  bs <~ take 12 ;;
  if all_zero bs then pret IsrcNone
  else if utf8_valid bs then
    match isrc_from_str bs with Some s => pret (IsrcStr s) | None => pfail EOther end
  else pfail EOther.

(* cuesheet.rs:320-335: at most 12 bytes of the string, zero padded *)
Definition write_isrc (i : isrc) : list N :=
  match i with
  | IsrcNone => zerosN 12
  | IsrcStr s => takeN 12 (s ++ zerosN 12)
  end.

(* offsets: CDDAOffset (cuesheet.rs:179-190) must be a multiple of 588; u64 otherwise *)
Definition read_offset (cdda : bool) : parser N :=
  o <~ read_be 8 ;;
  if cdda then (if o mod SAMPLES_PER_SECTOR =? 0 then pret o else pfail EOther) else pret o.

(* cuesheet.rs:694-714 *)
Definition read_index (cdda : bool) : parser index :=
  o <~ read_offset cdda ;; n <~ read_be 1 ;; _ <~ skip 3 ;; pret (mkIx o n).
Definition write_index (i : index) : list N := be_bytes 8 (ix_off i) ++ be_bytes 1 (ix_num i) ++ zerosN 3.

(* cuesheet.rs:684-692 (after fix F-C12e: `previous.number.checked_add(1) == Some(self.number)`) *)
Definition index_valid_first (i : index) : bool := (ix_off i =? 0) && ((ix_num i =? 0) || (ix_num i =? 1)).
Definition index_is_next (self prev : index) : res bool :=
  Ok ((ix_off prev <? ix_off self) &&
      (if ix_num prev + 1 <? 256 then ix_num self =? ix_num prev + 1 else false)).

(* cuesheet.rs:808-833 IndexVec::try_from(Contiguous) *)
Definition indexvec_try_from (items : list index) : res indexvec :=
  match items with
  | [] => Err EOther (* NoIndexPoints *)
  | i0 :: rest =>
    if ix_num i0 =? 0 then
      match rest with
      | i1 :: rest' => if ix_num i1 =? 1 then Ok (mkIV (Some i0) i1 rest') else Err EOther
      | [] => Err EOther
      end
    else if ix_num i0 =? 1 then Ok (mkIV None i0 rest)
    else Err EOther (* IndexPointsOutOfSequence *)
  end.
Definition indexvec_list (iv : indexvec) : list index :=
  match iv_00 iv with Some i => [i] | None => [] end ++ iv_01 iv :: iv_rest iv.
(* cuesheet.rs:800-805 last(): offset of the last index point *)
Definition indexvec_last (iv : indexvec) : N :=
  match rev (iv_rest iv) with i :: _ => ix_off i | [] => ix_off (iv_01 iv) end.

Definition read_flags : parser (bool * bool) :=
  b <~ take 1 ;;
  match rd 1 (bits_of_bytes b) with None => pfail EEof | Some (na, s1) =>
  match rd 1 s1 with None => pfail EEof | Some (pre, _) => pret (na =? 1, pre =? 1) end end.
Definition write_flags (na pre : bool) : list N :=
  bytes_of_bits 1 (wr 1 (b2n na) ++ wr 1 (b2n pre) ++ wr 6 0).

(* cuesheet.rs:428-458 / 481-511 *)
Definition read_track (cdda : bool) : parser track :=
  fun s =>
  (offset <~ read_offset cdda ;;
   number <~ read_be 1 ;;
   if number =? 0 then pfail EOther else
   i <~ read_isrc ;;
   '(na, pre) <~ read_flags ;;
   _ <~ skip 13 ;;
   count <~ read_be 1 ;;
   ixs <~ (fun s' => try_collect index_valid_first index_is_next
                       (if cdda then CDDA_MAX_INDEX else NONCDDA_MAX_INDEX)
                       (read_index cdda) s count [] 0 s') ;;
   iv <~ plift (indexvec_try_from ixs) ;;
   pret (mkTrack offset number i na pre iv)) s.

Fixpoint write_indexes (l : list index) : list N :=
  match l with [] => [] | i :: r => write_index i ++ write_indexes r end.

(* cuesheet.rs:460-476 / 513-529: `len().try_into().unwrap()` into u8 *)
Definition write_track (t : track) : res (list N) :=
  let ixs := indexvec_list (tr_ix t) in
  if 255 <? lenN ixs then Panic PUnwrap else
  Ok (be_bytes 8 (tr_off t) ++ be_bytes 1 (tr_num t) ++ write_isrc (tr_isrc t) ++
      write_flags (tr_non_audio t) (tr_pre t) ++ zerosN 13 ++
      be_bytes 1 (lenN ixs) ++ write_indexes ixs).

(* cuesheet.rs:410-418 Adjacent for Track, mod.rs:2626-2634 Adjacent for NonZero<u8> *)
Definition track_valid_first (t : track) : bool := (tr_off t =? 0) && (tr_num t =? 1).
Definition track_is_next (self prev : track) : res bool :=
  Ok ((if tr_num prev + 1 <? 256 then tr_num prev + 1 =? tr_num self else false) &&
      (indexvec_last (tr_ix prev) <? tr_off self)).

(* cuesheet.rs:534-563 / 603-632 *)
Definition read_leadout (cdda : bool) : parser leadout :=
  offset <~ read_offset cdda ;;
  number <~ read_be 1 ;;
  if negb (number =? (if cdda then LEADOUT_CDDA else LEADOUT_NONCDDA)) then pfail EOther else
  i <~ read_isrc ;;
  '(na, pre) <~ read_flags ;;
  _ <~ skip 13 ;;
  count <~ read_be 1 ;;
  if count =? 0 then pret (mkLO offset i na pre) else pfail EOther.
Definition write_leadout (cdda : bool) (l : leadout) : list N :=
  be_bytes 8 (lo_off l) ++ be_bytes 1 (if cdda then LEADOUT_CDDA else LEADOUT_NONCDDA) ++
  write_isrc (lo_isrc l) ++ write_flags (lo_non_audio l) (lo_pre l) ++ zerosN 13 ++ be_bytes 1 0.

(* mod.rs:3536-3541 *)
Fixpoint trim_nulls_rev (r : list N) : list N :=
  match r with 0 :: t => trim_nulls_rev t | _ => r end.
Definition trim_nulls (s : list N) : list N := rev (trim_nulls_rev (rev s)).

(* mod.rs:3420-3475 *)
Definition read_cuesheet : parser cuesheet :=
  fun s =>
  (catalog <~ take CATALOG_LEN ;;
   lead_in <~ read_be 8 ;;
   fl <~ take 1 ;;
   match rd 1 (bits_of_bytes fl) with None => pfail EEof | Some (is_cdda, _) =>
   _ <~ skip 258 ;;
   track_count <~ read_be 1 ;;
   let number := trim_nulls catalog in
   if is_cdda =? 1 then
     cat <~ plift (match number with
                   | [] => Ok None
                   | _ => if forallb is_digit number
                          then (if lenN number =? 13 then Ok (Some number) else Err EOther)
                          else Err EOther
                   end) ;;
     if (track_count =? 0) || (99 <? track_count - 1) then pfail EOther (* NoTracks *) else
     tracks <~ (fun s' => try_collect track_valid_first track_is_next CDDA_MAX_TRACKS
                            (read_track true) s (track_count - 1) [] 0 s') ;;
     lo <~ read_leadout true ;;
     pret (CueCDDA cat lead_in tracks lo)
   else
     if negb (forallb is_digit number) then pfail EOther else
     if track_count =? 0 then pfail EOther else
     tracks <~ (fun s' => try_collect track_valid_first track_is_next NONCDDA_MAX_TRACKS
                            (read_track false) s (track_count - 1) [] 0 s') ;;
     lo <~ read_leadout false ;;
     pret (CueNonCDDA number tracks lo)
   end) s.

Fixpoint write_tracks (l : list track) : res (list N) :=
  match l with
  | [] => Ok []
  | t :: r => (a <- write_track t ;; b <- write_tracks r ;; Ok (a ++ b))%res
  end.

(* mod.rs:3481-3532; NonCDDA catalog longer than 128 digits is refused (after fix) *)
Definition write_cuesheet (c : cuesheet) : res (list N) :=
  match c with
  | CueCDDA cat lead_in tracks lo =>
    let catalog := match cat with Some n => takeN CATALOG_LEN (n ++ zerosN CATALOG_LEN) | None => zerosN CATALOG_LEN end in
    if 255 <? lenN tracks + 1 then Panic PUnwrap else
    (ts <- write_tracks tracks ;;
     Ok (catalog ++ be_bytes 8 lead_in ++ [128] ++ zerosN 258 ++ be_bytes 1 (lenN tracks + 1) ++ ts ++ write_leadout true lo))%res
  | CueNonCDDA cat tracks lo =>
    if CATALOG_LEN <? lenN cat then Err EOther else
    if 255 <? lenN tracks + 1 then Panic PUnwrap else
    (ts <- write_tracks tracks ;;
     Ok (takeN CATALOG_LEN (cat ++ zerosN CATALOG_LEN) ++ be_bytes 8 0 ++ [0] ++ zerosN 258 ++
         be_bytes 1 (lenN tracks + 1) ++ ts ++ write_leadout false lo))%res
  end.

(* ---- Block::from_reader (mod.rs:1364-1377) and the body writers (mod.rs:1385-1409) *)
Definition read_body (ty : btype) (size : N) : parser block :=
  match ty with
  | TStreaminfo => x <~ read_streaminfo ;; pret (BStreaminfo x)
  | TPadding => x <~ read_padding size ;; pret (BPadding x)
  | TApplication => x <~ read_application size ;; pret (BApplication x)
  | TSeekTable => x <~ read_seektable size ;; pret (BSeekTable x)
  | TVorbis => x <~ read_vorbis ;; pret (BVorbis x)
  | TCuesheet => x <~ read_cuesheet ;; pret (BCuesheet x)
  | TPicture => x <~ read_picture ;; pret (BPicture x)
  end.

Definition write_body (b : block) : res (list N) :=
  match b with
  | BStreaminfo s => write_streaminfo s
  | BPadding n => write_padding n
  | BApplication a => write_application a
  | BSeekTable l => write_seektable l
  | BVorbis v => write_vorbis v
  | BCuesheet c => write_cuesheet c
  | BPicture x => write_picture x
  end.

(* ---- the size a block reports: MetadataBlock::bytes (mod.rs:156-158) runs to_writer on
   the counting sink BitsWritten<BlockBits> (mod.rs:166-226): the same checks as the real
   writer, each field contributing its width, failing beyond BlockBits::MAX = 8 * (2^24 - 1).
   The sizes are computed here from the field widths, not by measuring write_body. *)
Definition size_prefixed32 (l : list N) : res N := if lenN l <? 2 ^ 32 then Ok (4 + lenN l) else Err EOther.
Fixpoint size_strings (l : list (list N)) : res N :=
  match l with [] => Ok 0 | x :: r => (a <- size_prefixed32 x ;; b <- size_strings r ;; Ok (a + b))%res end.
Definition size_track (t : track) : res N :=
  let n := lenN (indexvec_list (tr_ix t)) in
  if 255 <? n then Panic PUnwrap else Ok (36 + 12 * n).
Fixpoint size_tracks (l : list track) : res N :=
  match l with [] => Ok 0 | t :: r => (a <- size_track t ;; b <- size_tracks r ;; Ok (a + b))%res end.
Fixpoint check_seekpoints (last_offset : option N) (l : list seekpoint) : res unit :=
  match l with
  | [] => Ok tt
  | SPDefined so _ _ :: r =>
    if so =? U64_MAX then Err EOther else
    match last_offset with
    | Some lo => if lo <? so then check_seekpoints (Some so) r else Err EOther
    | None => check_seekpoints (Some so) r
    end
  | SPPlaceholder :: r => check_seekpoints last_offset r
  end.

Definition body_size (b : block) : res N :=
  match b with
  | BStreaminfo si =>
    if negb (si_minf si <? 2 ^ 24) then Err EIo else
    if negb (si_maxf si <? 2 ^ 24) then Err EIo else
    if negb (si_rate si <? 2 ^ 20) then Err EIo else
    if negb (si_ch si - 1 <? 8) then Err EIo else
    match bitcount_checked_sub 31 (si_bps si) 1 with
    | None => Panic PUnwrap
    | Some _ => if negb (si_total si <? 2 ^ 36) then Err EIo else Ok 34
    end
  | BPadding n => Ok n
  | BApplication a => Ok (4 + lenN (app_data a))
  | BSeekTable l => (_ <- check_seekpoints None l ;; Ok (18 * lenN l))%res
  | BVorbis v =>
    (a <- size_prefixed32 (vc_vendor v) ;;
     if lenN (vc_fields v) <? 2 ^ 32 then (b <- size_strings (vc_fields v) ;; Ok (a + 4 + b)) else Err EOther)%res
  | BCuesheet (CueCDDA _ _ tracks _) =>
    if 255 <? lenN tracks + 1 then Panic PUnwrap else
    (ts <- size_tracks tracks ;; Ok (396 + ts + 36))%res
  | BCuesheet (CueNonCDDA cat tracks _) =>
    if CATALOG_LEN <? lenN cat then Err EOther else
    if 255 <? lenN tracks + 1 then Panic PUnwrap else
    (ts <- size_tracks tracks ;; Ok (396 + ts + 36))%res
  | BPicture x =>
    (m <- size_prefixed32 (pic_mime x) ;; d <- size_prefixed32 (pic_desc x) ;; y <- size_prefixed32 (pic_data x) ;;
     Ok (4 + m + d + 16 + y))%res
  end.

(* MetadataBlock::bytes: Some(size) when the counting pass succeeds within the limit *)
Definition block_bytes (b : block) : res (option N) :=
  match body_size b with
  | Ok n => Ok (if n <=? BLOCKSIZE_MAX then Some n else None)
  | Err _ => Ok None
  | Panic k => Panic k
  end.

(* ToBitStreamUsing for Block / BlockRef (mod.rs:1385-1409, 1469-1493) with BlockHeader::new
   (mod.rs:229-242): header from the counted size, then the body *)
Definition write_block (is_last : bool) (b : block) : res (list N) :=
  (n <- body_size b ;;
   if BLOCKSIZE_MAX <? n then Err EOther (* ExcessiveBlockSize *) else
   body <- write_body b ;;
   Ok (write_header (mkHeader is_last (block_type b) n) ++ body))%res.

End Utf8.
