#!/usr/bin/env python3
"""Show a replay file (the failing input / broken stage recorded by a check) and, when it carries a byte string
(a FLAC file or raw frames, hex under a key named `bytes`), run the implementation in /repo's CURRENT working tree on
exactly those bytes (harness bin `c03 --stdin`: every reader front-end, panics caught) and print what it does now.

usage: replay.py <replay.json> [--repo <dir>] [--no-run]"""
import json
import os
import re
import sys


def find_bytes(o, path=""):
    """(path, hex) of every string value under a key containing 'bytes' that looks like hex"""
    out = []
    if isinstance(o, dict):
        for k, v in o.items():
            p = path + "/" + str(k)
            if isinstance(v, str) and "bytes" in str(k) and len(v) >= 8 and len(v) % 2 == 0 and re.fullmatch(r"[0-9a-fA-F]+", v):
                out.append((p, v))
            else:
                out.extend(find_bytes(v, p))
    elif isinstance(o, list):
        for i, v in enumerate(o[:50]):
            out.extend(find_bytes(v, "%s[%d]" % (path, i)))
    return out


def main():
    args = [a for a in sys.argv[1:] if not a.startswith("--")]
    if not args:
        print(__doc__)
        return 2
    d = json.load(open(args[0]))
    print(json.dumps(d, indent=1)[:20000])
    if "--no-run" in sys.argv:
        return 0
    found = find_bytes(d.get("replay", d))
    if not found:
        print("\n(replay carries no byte string to re-run; the recorded input above is what the check's harness was given"
              " — re-run the check itself: tools/check %s --tier %s, seed %s)" % (d.get("property", "?"), d.get("tier", "quick"), d.get("seed", "?")))
        return 0
    try:
        sys.path.insert(0, os.path.dirname(os.path.abspath(__file__)))
        import vlib
        if "--repo" in sys.argv:
            vlib.REPO = os.path.abspath(sys.argv[sys.argv.index("--repo") + 1])
        ok, binp, out = vlib.cargo_build(os.path.join(vlib.VERIF, "harness"), "c03", "release")
        if not ok:
            print("\n(could not build the harness against %s: %s)" % (vlib.REPO, out[-400:]))
            return 0
        for path, hx in found[:4]:
            frames_only = not hx.lower().startswith("664c6143")       # "fLaC"
            kinds = ["dec_subset"] if frames_only else ["dec_stream"]
            for kind in kinds:
                req = json.dumps({"id": "replay", "bytes": hx, "kind": kind}) + "\n"
                rc, o = vlib.sh([binp, "--stdin"], stdin=req, timeout=120)
                print("\n== the implementation in %s, now, on %s (%d bytes, as %s):" % (vlib.REPO, path, len(hx) // 2, kind))
                shown = 0
                for line in o.splitlines():
                    if line.startswith("{"):
                        print("   " + line[:1500])
                        shown += 1
                if not shown:
                    print("   (no observation; exit code %s) %s" % (rc, o[-300:]))
    except Exception as e:                                       # the printed replay above is the primary content
        print("\n(re-run skipped: %s)" % e)
    return 0


if __name__ == "__main__":
    sys.exit(main())
