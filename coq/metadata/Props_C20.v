(* Property C20 — cue sheet text import reproduces the layout the text describes.
   Statements only; proofs in Cue_proofs.v.  The text side is ASCII for the significant
   lines (keywords, digits, colon and double quote); skipped lines and white space may be anything. *)
From FlacMeta Require Import Bytes Blocks BlockList Blocks_proofs2 Cue Accessors CueRender Cue_proofs Cue_proofs2 CueTyped.
Open Scope N_scope.

(* For a stream of a whole number of CD sectors, a text whose significant lines (after
   trimming, wherever REM / FILE / TITLE ... lines and blank lines stand) are those of a
   well-formed cue sheet c in any accepted spelling imports to exactly block_of c total:
   the tracks and index numbers of c, every index at ((ff + 75 ss + 4500 mm) * 588) samples
   (stored relative to the first index of its track), FLAGS PRE, ISRC and CATALOG as written,
   lead-in 88200, lead-out at the stream length. *)
Theorem C20_import : forall (p : profile) st c total text,
  wf_cue c -> total mod 588 = 0 -> before_end c total ->
  cue_text_matches st c text = true ->
  exists b, block_of c total = Some b /\ cue_parse p total text = Ok b.
Proof. exact cue_import. Qed.

(* MM:SS:FF in any padding is the position (ff + 75 ss + 4500 mm) * 588 *)
Theorem C20_offset_from_str : forall st i, wf_index i -> ci_mm i < 100000000000000000000 ->
  cdda_offset_from_str (time_text st i) = Some ((ci_ff i + 75 * ci_ss i + 4500 * ci_mm i) * 588).
Proof. exact time_text_parses. Qed.

(* the track ranges of the imported block run from each track's INDEX 01 to the next track's
   INDEX 01, the last one to the stream length *)
Theorem C20_ranges : forall c total b, wf_cue c -> block_of c total = Some b ->
  track_sample_ranges b = pair_up (map index01_samples (cu_tracks c) ++ [total]).
Proof. exact import_ranges. Qed.

(* the hypothesis of C20_import is met by every decoration (indentation, trailing blanks of
   any White_Space characters but newline, LF or CRLF) of the lines of a well-formed sheet in
   every accepted spelling; lines the parser skips may be added anywhere (they are filtered) *)
Theorem C20_render_matches : forall st c decos, wf_style st -> wf_cue c ->
  length decos = length (cue_lines st c) -> Forall wf_deco decos ->
  cue_text_matches st c (render decos (cue_lines st c)) = true.
Proof. exact render_matches. Qed.

Theorem C20_import_rendered : forall (p : profile) st c decos total, wf_style st -> wf_cue c ->
  length decos = length (cue_lines st c) -> Forall wf_deco decos ->
  total mod 588 = 0 -> before_end c total ->
  exists b, block_of c total = Some b /\ cue_parse p total (render decos (cue_lines st c)) = Ok b /\
            track_sample_ranges b = pair_up (map index01_samples (cu_tracks c) ++ [total]).
Proof. exact render_import. Qed.

(* exporting the imported block as text (Display, any file name without a newline) and
   importing that text again reproduces the same track and index layout and track ranges *)
Theorem C20_export_import : forall (p : profile) c total b fname,
  wf_cue c -> total mod 588 = 0 -> before_end c total -> block_of c total = Some b -> no_nl fname ->
  exists b', cue_parse p total (display b fname) = Ok b' /\ layout b' = layout b /\
             track_sample_ranges b' = track_sample_ranges b.
Proof. exact display_import. Qed.

(* non-vacuity: a two-track sheet with a pre-gap, flags, ISRC and catalog, minutes above 99 *)
Definition C20_example : cue :=
  mkCue (Some [48;49;50;51;52;53;54;55;56;57;48;49;50])
        [mkCT 1 false None [mkCI 1 0 0 0; mkCI 2 0 10 5];
         mkCT 2 true (Some [65;66;49;50;51;49;50;49;50;51;52;53]) [mkCI 0 120 30 74; mkCI 1 120 32 0]].
Definition C20_example_style : style := mkStyle true true true false true true true [65;85;68;73;79].
Example C20_nonvacuous :
  let total := 588 * 1000000 in
  let text := render (repeat (mkDeco [32; 32] [32] true) 9) (cue_lines C20_example_style C20_example) in
  cue_text_matches C20_example_style C20_example text = true /\
  exists b, block_of C20_example total = Some b /\ cue_parse Release total text = Ok b /\
            track_sample_ranges b = [(0, 318931200); (318931200, 588000000)].
Proof.
  cbv zeta. split; [vm_compute; reflexivity|]. eexists. split; [vm_compute; reflexivity|].
  split; vm_compute; reflexivity.
Qed.

(* C20 meets C11: the block a well-formed text imports to has the invariants of its Rust type (offsets multiples of 588
   below 2^64, index points and tracks contiguous in the reader's sense, at most 100 index points per track and 99
   tracks, ISRC and catalogue well formed) ... *)
Theorem C20_imported_block_typed : forall c total b,
  wf_cue c -> total mod 588 = 0 -> total < 18446744073709551616 ->
  block_of c total = Some b -> ty_cuesheet b.
Proof. exact imported_block_typed. Qed.

(* ... so the block writer accepts it and the block reader returns it unchanged: text -> block -> bytes -> block *)
Theorem C20_imported_text_round_trips : forall (u : list N -> bool), (forall s, Forall (fun b => b < 128) s -> u s = true) ->
  forall (p : profile) st c total text last,
  wf_cue c -> total mod 588 = 0 -> total < 18446744073709551616 -> before_end c total ->
  cue_text_matches st c text = true ->
  exists b bytes, cue_parse p total text = Ok b /\ block_of c total = Some b /\
    write_block last (BCuesheet b) = Ok bytes /\
    forall rest, read_block u (bytes ++ rest) = Ok (last, BCuesheet b, rest).
Proof.
  intros u Hu p st c total text last W Hm Ht Hb Hx.
  destruct (C20_import p st c total text W Hm Hb Hx) as (b & Eb & Ep).
  destruct (imported_block_round_trips u Hu c total b last W Hm Ht Eb) as (bytes & Hw & Hr).
  exists b, bytes. auto.
Qed.
Print Assumptions C20_imported_block_typed.
Print Assumptions C20_imported_text_round_trips.
