//! An independent, strict FLAC (RFC 9639) decoder/validator written from the format
//! description only.  It shares no code with the crate under test (own bit reader, own
//! bitwise CRCs, own tables, i128 arithmetic).  One deliberate deviation (DESIGN §1.2):
//! bit depths 1..=32 are accepted (the RFC says 4..=32) because the crate documents 1..=32.
//!
//! Used as the Rust-side judge for C02 (the Coq `Spec` decoder is the primary one once the
//! integrator's model is available) and as a cross-check of the C03 generator.

pub struct Bits<'a> {
    pub d: &'a [u8],
    pub pos: usize, // bit position
}

type R<T> = Result<T, String>;

impl<'a> Bits<'a> {
    pub fn new(d: &'a [u8]) -> Self { Bits { d, pos: 0 } }
    fn bit(&mut self) -> R<u64> {
        let byte = self.pos / 8;
        if byte >= self.d.len() { return Err("eof".into()); }
        let b = (self.d[byte] >> (7 - (self.pos % 8))) & 1;
        self.pos += 1;
        Ok(b as u64)
    }
    fn u(&mut self, n: u32) -> R<u64> {
        let mut v = 0u64;
        for _ in 0..n { v = (v << 1) | self.bit()?; }
        Ok(v)
    }
    fn s(&mut self, n: u32) -> R<i64> {
        if n == 0 { return Ok(0); }
        let v = self.u(n)?;
        if n < 64 && (v >> (n - 1)) & 1 == 1 { Ok((v as i64) - (1i64 << n)) } else { Ok(v as i64) }
    }
    /// number of 0 bits before the next 1 bit (consumes the 1)
    fn unary(&mut self) -> R<u64> {
        let mut n = 0u64;
        while self.bit()? == 0 { n += 1; }
        Ok(n)
    }
    fn aligned(&self) -> bool { self.pos % 8 == 0 }
}

pub fn crc8(d: &[u8]) -> u8 {
    let mut c: u8 = 0;
    for b in d {
        c ^= *b;
        for _ in 0..8 { c = if c & 0x80 != 0 { (c << 1) ^ 0x07 } else { c << 1 }; }
    }
    c
}
pub fn crc16(d: &[u8]) -> u16 {
    let mut c: u16 = 0;
    for b in d {
        c ^= (*b as u16) << 8;
        for _ in 0..8 { c = if c & 0x8000 != 0 { (c << 1) ^ 0x8005 } else { c << 1 }; }
    }
    c
}

#[derive(Clone, Debug)]
pub struct RefSi {
    pub min_bs: u32,
    pub max_bs: u32,
    pub min_fs: u32,
    pub max_fs: u32,
    pub rate: u32,
    pub ch: u32,
    pub bps: u32,
    pub total: u64,
    pub md5: [u8; 16],
}

pub fn parse_si(body: &[u8]) -> R<RefSi> {
    if body.len() != 34 { return Err("streaminfo length".into()); }
    let mut b = Bits::new(body);
    let min_bs = b.u(16)? as u32;
    let max_bs = b.u(16)? as u32;
    let min_fs = b.u(24)? as u32;
    let max_fs = b.u(24)? as u32;
    let rate = b.u(20)? as u32;
    let ch = b.u(3)? as u32 + 1;
    let bps = b.u(5)? as u32 + 1;
    let total = b.u(36)?;
    let mut md5 = [0u8; 16];
    md5.copy_from_slice(&body[18..34]);
    Ok(RefSi { min_bs, max_bs, min_fs, max_fs, rate, ch, bps, total, md5 })
}

#[derive(Clone, Debug)]
pub struct RefFrame {
    pub variable: bool,
    pub number: u64,
    pub bs: u32,
    pub rate: u32,
    pub ch: u32,
    pub bps: u32,
    pub assignment: u32, // 0 independent, 1 left/side, 2 side/right, 3 mid/side
    pub len: usize,      // bytes
    /// per-channel samples after undoing decorrelation
    pub chans: Vec<Vec<i64>>,
    pub subframe_kinds: Vec<String>,
    pub rate_from_si: bool,
    pub bps_from_si: bool,
}

fn residual(b: &mut Bits, bs: u32, order: u32) -> R<Vec<i128>> {
    let method = b.u(2)?;
    if method > 1 { return Err("reserved residual coding method".into()); }
    let pbits = if method == 0 { 4 } else { 5 };
    let esc = (1u64 << pbits) - 1;
    let po = b.u(4)? as u32;
    if bs % (1u32 << po) != 0 { return Err(format!("block size {} not divisible by 2^{}", bs, po)); }
    let per = bs >> po;
    if per <= order { return Err(format!("partition size {} not larger than predictor order {}", per, order)); }
    let mut out = Vec::with_capacity((bs - order) as usize);
    for p in 0..(1u32 << po) {
        let n = if p == 0 { per - order } else { per };
        let param = b.u(pbits)?;
        if param == esc {
            let w = b.u(5)? as u32;
            for _ in 0..n {
                let v = b.s(w)? as i128;
                out.push(v);
            }
        } else {
            for _ in 0..n {
                let q = b.unary()?;
                let r = b.u(param as u32)?;
                let folded: u128 = ((q as u128) << param) | r as u128;
                let v: i128 = if folded & 1 == 1 { -((folded >> 1) as i128) - 1 } else { (folded >> 1) as i128 };
                out.push(v);
            }
        }
    }
    for v in &out {
        if *v <= -(1i128 << 31) || *v >= (1i128 << 31) { return Err(format!("residual {} outside (-2^31, 2^31)", v)); }
    }
    Ok(out)
}

fn fits(v: i128, bits: u32) -> bool {
    v >= -(1i128 << (bits - 1)) && v < (1i128 << (bits - 1))
}

fn subframe(b: &mut Bits, bs: u32, depth: u32, kinds: &mut Vec<String>) -> R<Vec<i128>> {
    if b.u(1)? != 0 { return Err("subframe padding bit set".into()); }
    let t = b.u(6)?;
    let mut wasted = 0u32;
    if b.u(1)? == 1 { wasted = b.unary()? as u32 + 1; }
    if wasted >= depth { return Err("wasted bits not smaller than depth".into()); }
    let d = depth - wasted;
    let mut x: Vec<i128> = Vec::with_capacity(bs as usize);
    let fixed_coef: [&[i128]; 5] = [&[], &[1], &[2, -1], &[3, -3, 1], &[4, -6, 4, -1]];
    match t {
        0 => {
            kinds.push(format!("constant/w{}", wasted));
            let v = b.s(d)? as i128;
            x.resize(bs as usize, v);
        }
        1 => {
            kinds.push(format!("verbatim/w{}", wasted));
            for _ in 0..bs { x.push(b.s(d)? as i128); }
        }
        8..=12 => {
            let order = (t - 8) as u32;
            kinds.push(format!("fixed{}/w{}", order, wasted));
            if order > bs { return Err("fixed order larger than block".into()); }
            for _ in 0..order { x.push(b.s(d)? as i128); }
            let res = residual(b, bs, order)?;
            let c = fixed_coef[order as usize];
            for r in res {
                let n = x.len();
                let mut p: i128 = 0;
                for (j, cj) in c.iter().enumerate() { p += cj * x[n - 1 - j]; }
                // every sample must fit the subframe depth (also keeps the recursion bounded)
                if !fits(p + r, d) { return Err(format!("subframe sample {} does not fit {} bits", p + r, d)); }
                x.push(p + r);
            }
        }
        32..=63 => {
            let order = (t - 31) as u32;
            kinds.push(format!("lpc{}/w{}", order, wasted));
            if order > bs { return Err("lpc order larger than block".into()); }
            for _ in 0..order { x.push(b.s(d)? as i128); }
            let prec = b.u(4)? as u32;
            if prec == 15 { return Err("reserved coefficient precision".into()); }
            let prec = prec + 1;
            let shift = b.s(5)?;
            if shift < 0 { return Err("negative lpc shift".into()); }
            let mut c: Vec<i128> = vec![];
            for _ in 0..order { c.push(b.s(prec)? as i128); }
            let res = residual(b, bs, order)?;
            for r in res {
                let n = x.len();
                let mut p: i128 = 0;
                for (j, cj) in c.iter().enumerate() { p += cj * x[n - 1 - j]; }
                let v = (p >> shift) + r;
                if !fits(v, d) { return Err(format!("subframe sample {} does not fit {} bits", v, d)); }
                x.push(v);
            }
        }
        _ => return Err(format!("reserved subframe type {:06b}", t)),
    }
    for v in x.iter() {
        if !fits(*v, d) { return Err(format!("subframe sample {} does not fit {} bits", v, d)); }
    }
    Ok(x.into_iter().map(|v| v << wasted).collect())
}

/// Decode one frame starting at `d[0]`. `si`: STREAMINFO for the codes that refer to it.
pub fn frame(d: &[u8], si: Option<&RefSi>) -> R<RefFrame> {
    let mut b = Bits::new(d);
    if b.u(14)? != 0b11111111111110 { return Err("sync code".into()); }
    if b.u(1)? != 0 { return Err("reserved header bit 1".into()); }
    let variable = b.u(1)? == 1;
    let bs_code = b.u(4)?;
    let rate_code = b.u(4)?;
    let ch_code = b.u(4)?;
    let depth_code = b.u(3)?;
    if b.u(1)? != 0 { return Err("reserved header bit 2".into()); }
    // coded number
    let first = b.u(8)?;
    let number = if first & 0x80 == 0 { first }
    else {
        let mut extra = 0;
        let mut m = 0x40u64;
        while first & m != 0 { extra += 1; m >>= 1; }
        if extra == 0 || extra > 6 { return Err("coded number lead byte".into()); }
        let mut v = first & (m - 1) & 0x3F;
        if extra == 6 { v = 0; }
        for _ in 0..extra {
            let c = b.u(8)?;
            if c & 0xC0 != 0x80 { return Err("coded number continuation".into()); }
            v = (v << 6) | (c & 0x3F);
        }
        // minimal-length rule (UTF-8 style): not required by C02's wording for acceptance of
        // numbering, but an over-long form is not what an encoder may emit
        let min_len = match v { 0..=0x7F => 0, 0x80..=0x7FF => 1, 0x800..=0xFFFF => 2, 0x1_0000..=0x1F_FFFF => 3, 0x20_0000..=0x3FF_FFFF => 4, 0x400_0000..=0x7FFF_FFFF => 5, _ => 6 };
        if min_len != extra { return Err("over-long coded number".into()); }
        v
    };
    if !variable && number >= (1 << 31) { return Err("frame number needs more than 31 bits".into()); }
    let bs: u32 = match bs_code {
        0 => return Err("reserved block size code".into()),
        1 => 192,
        2..=5 => 576 << (bs_code - 2),
        6 => b.u(8)? as u32 + 1,
        7 => b.u(16)? as u32 + 1,
        _ => 256 << (bs_code - 8),
    };
    let mut rate_from_si = false;
    let rate: u32 = match rate_code {
        0 => { rate_from_si = true; si.ok_or("sample rate refers to STREAMINFO")?.rate }
        1 => 88200, 2 => 176400, 3 => 192000, 4 => 8000, 5 => 16000, 6 => 22050, 7 => 24000,
        8 => 32000, 9 => 44100, 10 => 48000, 11 => 96000,
        12 => b.u(8)? as u32 * 1000,
        13 => b.u(16)? as u32,
        14 => b.u(16)? as u32 * 10,
        _ => return Err("forbidden sample rate code".into()),
    };
    let hdr_len = b.pos / 8;
    let c8 = b.u(8)? as u8;
    if crc8(&d[..hdr_len]) != c8 { return Err("crc-8".into()); }
    let (ch, assignment) = match ch_code { 0..=7 => (ch_code as u32 + 1, 0), 8 => (2, 1), 9 => (2, 2), 10 => (2, 3), _ => return Err("reserved channel assignment".into()) };
    let mut bps_from_si = false;
    let bps: u32 = match depth_code {
        0 => { bps_from_si = true; si.ok_or("bit depth refers to STREAMINFO")?.bps }
        1 => 8, 2 => 12, 4 => 16, 5 => 20, 6 => 24, 7 => 32,
        _ => return Err("reserved bit depth code".into()),
    };
    if bs > 65535 && bs != 65536 { return Err("block size".into()); }
    let mut kinds = vec![];
    let mut subs: Vec<Vec<i128>> = vec![];
    for c in 0..ch {
        let side = (assignment == 1 && c == 1) || (assignment == 2 && c == 0) || (assignment == 3 && c == 1);
        subs.push(subframe(&mut b, bs, bps + if side { 1 } else { 0 }, &mut kinds)?);
    }
    // zero padding to byte boundary
    while !b.aligned() { if b.bit()? != 0 { return Err("non-zero padding bit".into()); } }
    let body_len = b.pos / 8;
    let c16 = b.u(16)? as u16;
    if crc16(&d[..body_len]) != c16 { return Err("crc-16".into()); }
    let n = bs as usize;
    let chans: Vec<Vec<i128>> = match assignment {
        0 => subs,
        1 => vec![subs[0].clone(), (0..n).map(|i| subs[0][i] - subs[1][i]).collect()],
        2 => vec![(0..n).map(|i| subs[0][i] + subs[1][i]).collect(), subs[1].clone()],
        _ => {
            let mut l = vec![0i128; n];
            let mut r = vec![0i128; n];
            for i in 0..n {
                let side = subs[1][i];
                let mid = (subs[0][i] << 1) | (side & 1);
                l[i] = (mid + side) >> 1;
                r[i] = (mid - side) >> 1;
            }
            vec![l, r]
        }
    };
    for c in chans.iter() { for v in c.iter() { if !fits(*v, bps) { return Err(format!("sample {} does not fit {} bits", v, bps)); } } }
    Ok(RefFrame { variable, number, bs, rate, ch, bps, assignment, len: b.pos / 8, chans: chans.into_iter().map(|c| c.into_iter().map(|v| v as i64).collect()).collect(), subframe_kinds: kinds, rate_from_si, bps_from_si })
}

pub struct RefStream {
    pub si: RefSi,
    pub audio_start: usize,
    pub frames: Vec<RefFrame>,
    pub pcm: Vec<i64>, // interleaved
}

/// Validate and decode a whole file. Strict stream-level rules:
/// `fLaC`, STREAMINFO first (34 bytes), block types 0..=6 known (7..=126 reserved are skipped,
/// 127 forbidden), frame parameters equal STREAMINFO, constant blocking strategy, numbering
/// (frame index from 0 / first-sample number), every non-final block within [min,max] block
/// size (fixed strategy: all non-final blocks equal), total sample count and MD5 when present.
pub fn stream(f: &[u8]) -> R<RefStream> {
    if f.len() < 4 || &f[..4] != b"fLaC" { return Err("missing fLaC".into()); }
    let mut at = 4;
    let mut si: Option<RefSi> = None;
    let mut first = true;
    loop {
        if at + 4 > f.len() { return Err("eof in metadata".into()); }
        let last = f[at] & 0x80 != 0;
        let ty = f[at] & 0x7F;
        let len = ((f[at + 1] as usize) << 16) | ((f[at + 2] as usize) << 8) | f[at + 3] as usize;
        at += 4;
        if at + len > f.len() { return Err("eof in metadata block".into()); }
        if first {
            if ty != 0 { return Err("first block is not STREAMINFO".into()); }
            si = Some(parse_si(&f[at..at + len])?);
            first = false;
        } else if ty == 0 { return Err("second STREAMINFO".into()); }
        if ty == 127 { return Err("forbidden block type 127".into()); }
        at += len;
        if last { break; }
    }
    let si = si.unwrap();
    if si.min_bs < 16 || si.max_bs < si.min_bs { return Err(format!("streaminfo block sizes {}..{}", si.min_bs, si.max_bs)); }
    let audio_start = at;
    let mut frames: Vec<RefFrame> = vec![];
    let mut pcm: Vec<i64> = vec![];
    let mut total: u64 = 0;
    while at < f.len() {
        let fr = frame(&f[at..], Some(&si)).map_err(|e| format!("frame {} at byte {}: {}", frames.len(), at, e))?;
        if fr.rate != si.rate || fr.ch != si.ch || fr.bps != si.bps { return Err(format!("frame {} parameters differ from STREAMINFO", frames.len())); }
        if let Some(p) = frames.last() {
            if p.variable != fr.variable { return Err("blocking strategy changes".into()); }
            // the previous frame was not the last one: it must respect the minimum block size
            if p.bs < si.min_bs { return Err(format!("non-final frame {} has {} samples, below the minimum block size {}", frames.len() - 1, p.bs, si.min_bs)); }
            if !p.variable && p.bs != si.max_bs { return Err(format!("non-final frame {} of a fixed-blocksize stream has {} samples, advertised {}", frames.len() - 1, p.bs, si.max_bs)); }
        }
        if fr.bs > si.max_bs { return Err(format!("frame {} block size {} above maximum {}", frames.len(), fr.bs, si.max_bs)); }
        if fr.variable { if fr.number != total { return Err(format!("frame {} sample number {} expected {}", frames.len(), fr.number, total)); } }
        else if fr.number != frames.len() as u64 { return Err(format!("frame {} is numbered {}", frames.len(), fr.number)); }
        if si.min_fs != 0 && (fr.len as u32) < si.min_fs { return Err(format!("frame {} is {} bytes, below the stated minimum {}", frames.len(), fr.len, si.min_fs)); }
        if si.max_fs != 0 && (fr.len as u32) > si.max_fs { return Err(format!("frame {} is {} bytes, above the stated maximum {}", frames.len(), fr.len, si.max_fs)); }
        let n = fr.bs as usize;
        for i in 0..n { for c in 0..fr.ch as usize { pcm.push(fr.chans[c][i]); } }
        total += fr.bs as u64;
        at += fr.len;
        frames.push(fr);
    }
    if si.total != 0 && si.total != total { return Err(format!("STREAMINFO total {} but {} samples present", si.total, total)); }
    if si.md5 != [0u8; 16] {
        let w = si.bps.div_ceil(8) as usize;
        let mut bytes = Vec::with_capacity(pcm.len() * w);
        for s in &pcm { bytes.extend_from_slice(&s.to_le_bytes()[..w]); }
        if md5::compute(&bytes).0 != si.md5 { return Err("MD5 mismatch".into()); }
    }
    Ok(RefStream { si, audio_start, frames, pcm })
}
