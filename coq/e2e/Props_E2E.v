(* E2E/Props_E2E.v — the end-to-end statements of C01 across the three areas (statement + `exact` only). *)
From Coq Require Import List NArith ZArith.
From FlacBase Require Import Res.
From FlacCodec Require Ast Stream Header Wf Enc Enc_proofs.
From FlacWriters Require Import Meta Params Finalize Writers.
From FlacWriters Require Import Params_proofs.
From FlacReaders Require Readers Spec Ser RNum Seek.
From FlacWriters Require Import Lists_proofs Writers_proofs.
From FlacWriters Require Import Bytes_proofs Cross_proofs.
From FlacE2E Require Import Bridge E2E SampleE2E Success ChannelE2E ByteE2E ByteSuccess ChannelSuccess ReadBridge ReadersE2E InterruptedE2E SeekE2E SeekReadE2E Transfer DecodedFile DamagedFile InterruptedBytes InterruptedChannels OutputBound NoPanicFile SizeBound SizeBoundFronts.
Import ListNotations.
Open Scope N_scope.

(* the metadata region as the writers area serialises it (byte-exact model of metadata/mod.rs, tied to the
   implementation by C09) is read by the codec area's reader as exactly the STREAMINFO written; what follows
   the region is the audio *)
Theorem C01_written_metadata_is_read : forall s blocks meta audio,
  write_blocks s blocks = Ok meta -> md5_len_ok s ->
  FlacCodec.Stream.read_metadata_min (meta ++ audio) = Some (conv_si s, audio).
Proof. exact read_written_metadata. Qed.

(* the Encoder of the writers area with the codec area's block encoder plugged in: construct, any interleaving of
   MD5 updates and Encoder::encode calls on blocks in range, finalize — the finished stream decodes to the
   STREAMINFO finalize wrote and exactly the encoded blocks, in order, ending cleanly *)
Theorem C01_end_to_end_encoder : forall o L md5, (forall l, length (md5 l) = 16%nat) ->
  forall p rate bps wo ch total e0 bl e f,
  encoder_new p [] wo rate bps ch total = Ok e0 ->
  reach o L p rate bps e0 bl e ->
  encoder_finalize md5 p e = Ok f ->
  Forall (FlacCodec.Enc_proofs.block_ok (conv_si (f_si f)) bps) bl ->
  FlacCodec.Enc_proofs.short_only_last (conv_si (f_si f)) bl ->
  N.of_nat (length bl) <= FlacCodec.Header.MAX_FRAME_NUMBER + 1 ->
  FlacCodec.Enc_proofs.blocks_samples bl < 2 ^ 64 ->
  FlacCodec.Stream.dec_stream (f_stream f) =
    Some (conv_si (f_si f), map FlacCodec.Stream.interleave_frame bl, FlacCodec.Stream.EndEof) /\
  FlacCodec.Ast.si_total (conv_si (f_si f)) = FlacCodec.Enc_proofs.blocks_samples bl.
Proof. intros. eapply e2e_encoder; eauto. Qed.

(* FlacSampleWriter (any chunking of the writes): its run drives the Encoder only through those calls, and the
   file it leaves decodes to the blocks handed to Encoder::encode *)
Theorem C01_end_to_end_sample_writer : forall o L md5, (forall l, length (md5 l) = 16%nat) ->
  forall p rate bps wo ch total w chunks f,
  sample_new p [] wo rate bps ch total = Ok w ->
  sample_run (encB o L rate bps) md5 p w chunks = Ok f ->
  exists bl, reach o L p rate bps (sw_enc w) bl (f_enc f) /\
    (Forall (FlacCodec.Enc_proofs.block_ok (conv_si (f_si f)) bps) bl ->
     FlacCodec.Enc_proofs.short_only_last (conv_si (f_si f)) bl ->
     N.of_nat (length bl) <= FlacCodec.Header.MAX_FRAME_NUMBER + 1 -> FlacCodec.Enc_proofs.blocks_samples bl < 2 ^ 64 ->
     FlacCodec.Stream.dec_stream (f_stream f) =
       Some (conv_si (f_si f), map FlacCodec.Stream.interleave_frame bl, FlacCodec.Stream.EndEof)).
Proof. intros. eapply e2e_sample_writer; eauto. Qed.

(* C01 for FlacSampleWriter on the samples themselves: well-formed options, samples within the bit depth, ANY chunking
   of the writes, a run that finished — the file decodes (stream decoder model) to the STREAMINFO finalize wrote and to
   frames whose concatenation is exactly the whole PCM frames of what was written (a trailing partial PCM frame is
   dropped, as the writer documents) *)
Theorem C01_end_to_end_samples : forall o L md5, (forall l, length (md5 l) = 16%nat) ->
  forall p rate bps wo ch total w chunks f,
  options_wf wo ->
  sample_new p [] wo rate bps ch total = Ok w ->
  sample_run (encB o L rate bps) md5 p w chunks = Ok f ->
  forallb (FlacCodec.Wf.fits bps) (concat chunks) = true ->
  N.of_nat (length (concat chunks)) < 2 ^ 36 ->
  exists blocks,
    FlacCodec.Stream.dec_stream (f_stream f) =
      Some (conv_si (f_si f), map FlacCodec.Stream.interleave_frame blocks, FlacCodec.Stream.EndEof) /\
    concat (map FlacCodec.Stream.interleave_frame blocks) =
      firstn (N.to_nat ch * (length (concat chunks) / N.to_nat ch)) (concat chunks) /\
    Forall (FlacCodec.Enc_proofs.block_ok (conv_si (f_si f)) bps) blocks /\
    FlacCodec.Enc_proofs.short_only_last (conv_si (f_si f)) blocks /\
    FlacCodec.Ast.si_total (conv_si (f_si f)) = FlacCodec.Enc_proofs.blocks_samples blocks /\
    FlacCodec.Ast.si_channels (conv_si (f_si f)) = ch /\ FlacCodec.Enc_proofs.blocks_samples blocks < 2 ^ 36 /\
    FlacCodec.Spec.spec_stream (f_stream f) = Ok (conv_si (f_si f), blocks) /\
    reach o L p rate bps (sw_enc w) blocks (f_enc f).
Proof. intros. eapply e2e_sample_pcm; eauto. Qed.

(* C01 for FlacSampleWriter, complete: hypotheses on the input only.  For well-formed options, a writer the
   constructor returned, samples within the bit depth making at least one whole PCM frame, a declared total (if any)
   equal to the samples in the whole PCM frames written, and ANY chunking of the writes:
   the run SUCCEEDS (no error, no panic, either build profile) and the finished file decodes to exactly those samples *)
Theorem C01_sample_writer_lossless : forall o L md5, (forall l, length (md5 l) = 16%nat) ->
  forall p rate bps wo ch total w chunks,
  options_wf wo ->
  sample_new p [] wo rate bps ch total = Ok w ->
  forallb (FlacCodec.Wf.fits bps) (concat chunks) = true ->
  let W := N.of_nat (length (concat chunks)) / ch in
  1 <= W -> N.of_nat (length (concat chunks)) < 2 ^ 36 ->
  match total with Some T => T = ch * W | None => True end ->
  exists f blocks,
    sample_run (encB o L rate bps) md5 p w chunks = Ok f /\
    FlacCodec.Stream.dec_stream (f_stream f) =
      Some (conv_si (f_si f), map FlacCodec.Stream.interleave_frame blocks, FlacCodec.Stream.EndEof) /\
    concat (map FlacCodec.Stream.interleave_frame blocks) =
      firstn (N.to_nat ch * (length (concat chunks) / N.to_nat ch)) (concat chunks).
Proof. exact sample_writer_lossless. Qed.

(* C01 down to the reader front-ends: hypotheses on the input only.  The run succeeds; the stream decoder model decodes
   the file to the blocks; the readers area's abstract file of those blocks is valid (C06/C07's hypothesis) and its PCM
   is exactly the whole PCM frames written; hence the FlacSampleReader model delivers exactly those samples, once and
   in order, under EVERY seek-free history of read / fill_buf / consume / next calls (C07; the byte and channel
   readers deliver pcm_bytes / chan_pcm of the same file by C07_byte_reader / C07_channel_reader) *)
Theorem C01_written_samples_are_read : forall o L md5, (forall l, length (md5 l) = 16%nat) ->
  forall p rate bps wo ch total w chunks e rp,
  options_wf wo ->
  sample_new p [] wo rate bps ch total = Ok w ->
  forallb (FlacCodec.Wf.fits bps) (concat chunks) = true ->
  let W := N.of_nat (length (concat chunks)) / ch in
  let written := firstn (N.to_nat ch * (length (concat chunks) / N.to_nat ch)) (concat chunks) in
  1 <= W -> N.of_nat (length (concat chunks)) < 2 ^ 36 ->
  match total with Some T => T = ch * W | None => True end ->
  exists f blocks,
    sample_run (encB o L rate bps) md5 p w chunks = Ok f /\
    FlacCodec.Stream.dec_stream (f_stream f) =
      Some (conv_si (f_si f), map FlacCodec.Stream.interleave_frame blocks, FlacCodec.Stream.EndEof) /\
    let F := file_of_blocks blocks ch bps (Some (FlacCodec.Enc_proofs.blocks_samples blocks)) e rp in
    FlacReaders.Spec.valid_file F /\ FlacReaders.Spec.pcm F = written /\
    forall ops, FlacReaders.Spec.no_sseek ops -> Forall FlacReaders.Spec.sop_ok (snd (FlacReaders.Seek.sample_run F ops)) ->
      let atr := map (FlacReaders.Spec.abs_s F) (snd (FlacReaders.Seek.sample_run F ops)) in
      Forall (FlacReaders.Spec.cur_ok written) atr /\
      FlacReaders.Spec.chained 0 atr (FlacReaders.Spec.spos F (fst (FlacReaders.Seek.sample_run F ops))) /\
      FlacReaders.Spec.exactly_once written atr.
Proof. exact written_samples_are_read. Qed.

(* C01 for FlacChannelWriter on the channels themselves: per-channel slices of equal length in ANY chunking, samples
   within the bit depth, a run that finished => the file decodes to blocks whose per-channel concatenation
   (`stack`) is exactly what was written *)
Theorem C01_end_to_end_channels : forall o L md5, (forall l, length (md5 l) = 16%nat) ->
  forall p rate bps wo ch total w chunks f,
  options_wf wo ->
  channel_new p [] wo rate bps ch total = Ok w ->
  Forall (chunk_ok (N.to_nat ch)) chunks ->
  channel_run (encB o L rate bps) md5 p w chunks = Ok f ->
  let all := cconcat (N.to_nat ch) chunks in
  forallb (FlacCodec.Wf.fits bps) (concat all) = true ->
  N.of_nat (length (hd [] all)) < 2 ^ 36 ->
  exists blocks,
    FlacCodec.Stream.dec_stream (f_stream f) =
      Some (conv_si (f_si f), map FlacCodec.Stream.interleave_frame blocks, FlacCodec.Stream.EndEof) /\
    stack blocks (repeat [] (N.to_nat ch)) = all.
Proof.
  intros o L md5 Hmd p rate bps wo ch total w chunks f Hwf Hnew Hch Hrun all Hfit Hlen.
  destruct (e2e_channel_pcm o L md5 Hmd p rate bps wo ch total w chunks f Hwf Hnew Hch Hrun Hfit Hlen) as (blocks & A & B & _).
  exists blocks. auto.
Qed.

(* C01 for FlacByteWriter, either byte order, on the bytes themselves: ANY chunking of the writes (also in the middle of a
   sample); the file decodes to exactly the whole PCM frames of the samples the bytes spell out *)
Theorem C01_end_to_end_bytes : forall o L md5, (forall l, length (md5 l) = 16%nat) ->
  forall p rate bps en wo ch total w chunks f,
  options_wf wo ->
  byte_new p en [] wo rate bps ch total = Ok w ->
  byte_run (encB o L rate bps) md5 p w chunks = Ok f ->
  Forall byte_ok (concat chunks) ->
  let n := N.to_nat (bytes_per_sample_of bps) in
  let samples := decode_bytes en n (concat chunks) in
  forallb (FlacCodec.Wf.fits bps) samples = true ->
  N.of_nat (length samples) < 2 ^ 36 ->
  exists blocks,
    FlacCodec.Stream.dec_stream (f_stream f) =
      Some (conv_si (f_si f), map FlacCodec.Stream.interleave_frame blocks, FlacCodec.Stream.EndEof) /\
    concat (map FlacCodec.Stream.interleave_frame blocks) = firstn (N.to_nat ch * (length samples / N.to_nat ch)) samples.
Proof.
  intros o L md5 Hmd p rate bps en wo ch total w chunks f Hwf Hnew Hrun Hb n samples Hfit Hlen.
  destruct (e2e_byte_pcm o L md5 Hmd p rate bps en wo ch total w chunks f Hwf Hnew Hrun Hb Hfit Hlen) as (blocks & A & B & _).
  exists blocks. auto.
Qed.

(* C01 for FlacChannelWriter and FlacByteWriter with hypotheses on the input only: the run SUCCEEDS (no error, no
   panic, either build profile) under any chunking of the writes, and the finished file decodes to what was written *)
Theorem C01_channel_writer_lossless : forall o L md5, (forall l, length (md5 l) = 16%nat) ->
  forall p rate bps wo ch total w chunks,
  options_wf wo ->
  channel_new p [] wo rate bps ch total = Ok w ->
  Forall (chunk_ok (N.to_nat ch)) chunks ->
  let all := cconcat (N.to_nat ch) chunks in
  forallb (FlacCodec.Wf.fits bps) (concat all) = true ->
  let m := length (hd [] all) in
  (1 <= m)%nat -> N.of_nat m < 2 ^ 36 ->
  match total with Some T => T = N.of_nat m | None => True end ->
  exists f blocks,
    channel_run (encB o L rate bps) md5 p w chunks = Ok f /\
    FlacCodec.Stream.dec_stream (f_stream f) =
      Some (conv_si (f_si f), map FlacCodec.Stream.interleave_frame blocks, FlacCodec.Stream.EndEof) /\
    stack blocks (repeat [] (N.to_nat ch)) = all.
Proof. exact channel_writer_lossless. Qed.

Theorem C01_byte_writer_lossless : forall o L md5, (forall l, length (md5 l) = 16%nat) ->
  forall p rate bps en wo ch total w chunks,
  options_wf wo ->
  byte_new p en [] wo rate bps ch total = Ok w ->
  Forall byte_ok (concat chunks) ->
  let nb := bytes_per_sample_of bps in
  let samples := decode_bytes en (N.to_nat nb) (concat chunks) in
  forallb (FlacCodec.Wf.fits bps) samples = true ->
  let W := N.of_nat (length samples) / ch in
  1 <= W -> N.of_nat (length samples) < 2 ^ 36 ->
  match total with Some T => T = nb * ch * W | None => True end ->
  exists f blocks,
    byte_run (encB o L rate bps) md5 p w chunks = Ok f /\
    FlacCodec.Stream.dec_stream (f_stream f) =
      Some (conv_si (f_si f), map FlacCodec.Stream.interleave_frame blocks, FlacCodec.Stream.EndEof) /\
    concat (map FlacCodec.Stream.interleave_frame blocks) =
      firstn (N.to_nat ch * (length samples / N.to_nat ch)) samples.
Proof. exact byte_writer_lossless. Qed.

(* C01 down to the matching reader front-ends for the other two writers, hypotheses on the input only: what the
   FlacChannelWriter model was given per channel is what the FlacChannelReader model delivers per channel, and the bytes
   the FlacByteWriter model was given (whole PCM frames) are the bytes the FlacByteReader model of the same byte order
   delivers — exactly once, in order, under EVERY seek-free call history (C07) *)
Theorem C01_written_channels_are_read : forall o L md5, (forall l, length (md5 l) = 16%nat) ->
  forall p rate bps wo ch total w chunks e rp,
  options_wf wo ->
  channel_new p [] wo rate bps ch total = Ok w ->
  Forall (chunk_ok (N.to_nat ch)) chunks ->
  let all := cconcat (N.to_nat ch) chunks in
  forallb (FlacCodec.Wf.fits bps) (concat all) = true ->
  let m := length (hd [] all) in
  (1 <= m)%nat -> N.of_nat m < 2 ^ 36 ->
  match total with Some T => T = N.of_nat m | None => True end ->
  exists f blocks,
    channel_run (encB o L rate bps) md5 p w chunks = Ok f /\
    FlacCodec.Stream.dec_stream (f_stream f) =
      Some (conv_si (f_si f), map FlacCodec.Stream.interleave_frame blocks, FlacCodec.Stream.EndEof) /\
    let F := file_of_blocks blocks ch bps (Some (FlacCodec.Enc_proofs.blocks_samples blocks)) e rp in
    FlacReaders.Spec.valid_file F /\
    forall c, (c < N.to_nat ch)%nat ->
      FlacReaders.Spec.chan_pcm F c = nth c all [] /\
      forall ops, FlacReaders.Spec.no_cseek ops -> Forall FlacReaders.Spec.cop_ok (snd (FlacReaders.Seek.chan_run F ops)) ->
        let atr := map (FlacReaders.Spec.abs_c F c) (snd (FlacReaders.Seek.chan_run F ops)) in
        Forall (FlacReaders.Spec.cur_ok (nth c all [])) atr /\
        FlacReaders.Spec.chained 0 atr (FlacReaders.Spec.cpos (fst (FlacReaders.Seek.chan_run F ops))) /\
        FlacReaders.Spec.exactly_once (nth c all []) atr /\
        Forall (FlacReaders.Spec.chan_shape F) (snd (FlacReaders.Seek.chan_run F ops)).
Proof. exact written_channels_are_read. Qed.

Theorem C01_written_bytes_are_read : forall o L md5, (forall l, length (md5 l) = 16%nat) ->
  forall p rate bps en wo ch total w chunks rp,
  options_wf wo ->
  byte_new p en [] wo rate bps ch total = Ok w ->
  Forall byte_ok (concat chunks) ->
  let nb := bytes_per_sample_of bps in
  let samples := decode_bytes en (N.to_nat nb) (concat chunks) in
  forallb (FlacCodec.Wf.fits bps) samples = true ->
  let W := N.of_nat (length samples) / ch in
  let written := firstn (N.to_nat nb * (N.to_nat ch * (length samples / N.to_nat ch))) (concat chunks) in
  1 <= W -> N.of_nat (length samples) < 2 ^ 36 ->
  match total with Some T => T = nb * ch * W | None => True end ->
  exists f blocks,
    byte_run (encB o L rate bps) md5 p w chunks = Ok f /\
    FlacCodec.Stream.dec_stream (f_stream f) =
      Some (conv_si (f_si f), map FlacCodec.Stream.interleave_frame blocks, FlacCodec.Stream.EndEof) /\
    let F := file_of_blocks blocks ch bps (Some (FlacCodec.Enc_proofs.blocks_samples blocks)) (conv_endian en) rp in
    FlacReaders.Spec.valid_file F /\ FlacReaders.Spec.pcm_bytes F = written /\
    forall ops, FlacReaders.Spec.no_bseek ops -> Forall FlacReaders.Spec.bop_ok (snd (FlacReaders.Seek.byte_run F ops)) ->
      let atr := map (FlacReaders.Spec.abs_b F) (snd (FlacReaders.Seek.byte_run F ops)) in
      Forall (FlacReaders.Spec.cur_ok written) atr /\
      FlacReaders.Spec.chained 0 atr (FlacReaders.Spec.bpos F (fst (FlacReaders.Seek.byte_run F ops))) /\
      FlacReaders.Spec.exactly_once written atr.
Proof. exact written_bytes_are_read. Qed.

(* C02 end to end, hypotheses on the input only: the finished file of a FlacSampleWriter run (any chunking) passes the
   codec area's strict stream validator — tag, STREAMINFO, every frame parses with valid CRCs, is well-formed and
   RFC-valid and re-serialises to the very bytes it was parsed from, fixed-blocksize numbering 0,1,2,..., the advertised
   block size on every frame but the last, totals consistent — and the validator's blocks are the samples written *)
Theorem C02_sample_writer_file_valid : forall o L md5, (forall l, length (md5 l) = 16%nat) ->
  forall p rate bps wo ch total w chunks,
  options_wf wo ->
  sample_new p [] wo rate bps ch total = Ok w ->
  forallb (FlacCodec.Wf.fits bps) (concat chunks) = true ->
  let W := N.of_nat (length (concat chunks)) / ch in
  1 <= W -> N.of_nat (length (concat chunks)) < 2 ^ 36 ->
  match total with Some T => T = ch * W | None => True end ->
  exists f blocks,
    sample_run (encB o L rate bps) md5 p w chunks = Ok f /\
    FlacCodec.Spec.spec_stream (f_stream f) = Ok (conv_si (f_si f), blocks) /\
    concat (map FlacCodec.Stream.interleave_frame blocks) =
      firstn (N.to_nat ch * (length (concat chunks) / N.to_nat ch)) (concat chunks).
Proof. exact sample_writer_file_valid. Qed.

Theorem C02_byte_writer_file_valid : forall o L md5, (forall l, length (md5 l) = 16%nat) ->
  forall p rate bps en wo ch total w chunks,
  options_wf wo ->
  byte_new p en [] wo rate bps ch total = Ok w ->
  Forall byte_ok (concat chunks) ->
  let nb := bytes_per_sample_of bps in
  let samples := decode_bytes en (N.to_nat nb) (concat chunks) in
  forallb (FlacCodec.Wf.fits bps) samples = true ->
  let W := N.of_nat (length samples) / ch in
  1 <= W -> N.of_nat (length samples) < 2 ^ 36 ->
  match total with Some T => T = nb * ch * W | None => True end ->
  exists f blocks,
    byte_run (encB o L rate bps) md5 p w chunks = Ok f /\
    FlacCodec.Spec.spec_stream (f_stream f) = Ok (conv_si (f_si f), blocks) /\
    concat (map FlacCodec.Stream.interleave_frame blocks) =
      firstn (N.to_nat ch * (length samples / N.to_nat ch)) samples.
Proof. exact byte_writer_file_valid. Qed.
Theorem C02_channel_writer_file_valid : forall o L md5, (forall l, length (md5 l) = 16%nat) ->
  forall p rate bps wo ch total w chunks,
  options_wf wo ->
  channel_new p [] wo rate bps ch total = Ok w ->
  Forall (chunk_ok (N.to_nat ch)) chunks ->
  let all := cconcat (N.to_nat ch) chunks in
  forallb (FlacCodec.Wf.fits bps) (concat all) = true ->
  let m := length (hd [] all) in
  (1 <= m)%nat -> N.of_nat m < 2 ^ 36 ->
  match total with Some T => T = N.of_nat m | None => True end ->
  exists f blocks,
    channel_run (encB o L rate bps) md5 p w chunks = Ok f /\
    FlacCodec.Spec.spec_stream (f_stream f) = Ok (conv_si (f_si f), blocks) /\
    stack blocks (repeat [] (N.to_nat ch)) = all.
Proof. exact channel_writer_file_valid. Qed.

(* C14 across the areas.  Whatever the Encoder model has put on the underlying stream when the run is interrupted before
   finalize — the provisional metadata region (STREAMINFO with the declared or zero total, placeholder SEEKTABLE,
   padding), the frames of the blocks encoded so far, and the frame of the next block cut at ANY byte — opens with the
   stream decoder model and decodes to exactly the blocks encoded so far, ending with an end or an error, never a panic *)
Theorem C14_end_to_end_interrupted : forall o L (md5 : list N -> list N), (forall l, length (md5 l) = 16%nat) ->
  forall p rate bps wo ch total e0 bl e b gb m,
  encoder_new p [] wo rate bps ch total = Ok e0 ->
  reach o L p rate bps e0 bl e ->
  let si := conv_si (e_si e0) in
  Forall (fun x => FlacCodec.Enc_proofs.block_ok si bps x /\ 14 < FlacCodec.Enc.block_len x) (bl ++ [b]) ->
  N.of_nat (length bl) + 1 <= FlacCodec.Header.MAX_FRAME_NUMBER + 1 ->
  FlacCodec.Enc.enc_frame_bytes o L rate bps (N.of_nat (length bl)) b = Some gb -> (m < length gb)%nat ->
  match total with Some T => FlacCodec.Enc_proofs.blocks_samples bl + FlacCodec.Enc.block_len b <= T | None => True end ->
  match FlacCodec.Stream.dec_stream (stream e ++ firstn m gb) with
  | Some (si', out, en) => si' = si /\ out = map FlacCodec.Stream.interleave_frame bl /\ FlacCodec.Progress.is_end_panic en = false
  | None => False
  end.
Proof. exact e2e_interrupted. Qed.

(* ... and for a FlacSampleWriter model run interrupted after any sequence of write calls: the blocks on the stream are
   the whole blocks of everything written so far *)
Theorem C14_sample_writer_interrupted : forall o L p rate bps wo ch total w chunks w',
  options_wf wo ->
  sample_new p [] wo rate bps ch total = Ok w ->
  fold_res (sample_write (encB o L rate bps) p) w chunks = Ok w' ->
  forallb (FlacCodec.Wf.fits bps) (concat chunks) = true ->
  N.of_nat (length (concat chunks)) < 2 ^ 36 ->
  let si := conv_si (e_si (sw_enc w)) in
  let K := N.to_nat (ch * o_block_size wo) in
  exists bl,
    concat (map FlacCodec.Stream.interleave_frame bl) = firstn (K * (length (concat chunks) / K)) (concat chunks) /\
    forall b gb m,
      FlacCodec.Enc_proofs.block_ok si bps b -> FlacCodec.Enc.block_len b = o_block_size wo ->
      FlacCodec.Enc.enc_frame_bytes o L rate bps (N.of_nat (length bl)) b = Some gb -> (m < length gb)%nat ->
      match si_total (e_si (sw_enc w)) with Some t => FlacCodec.Enc_proofs.blocks_samples bl + FlacCodec.Enc.block_len b <= t | None => True end ->
      match FlacCodec.Stream.dec_stream (stream (sw_enc w') ++ firstn m gb) with
      | Some (si', out, en) => si' = si /\ out = map FlacCodec.Stream.interleave_frame bl /\ FlacCodec.Progress.is_end_panic en = false
      | None => False
      end.
Proof. exact sample_writer_interrupted. Qed.

(* C09 across the areas.  Every defined point of the SEEKTABLE finalize writes names a frame boundary of the finished
   stream: at its byte offset (counted from the first frame) the codec area's frame decoder finds the frame of a block,
   that block starts at the sample number the point announces, has the length it announces, and its frame number is its
   position.  (C09_points proves the table truthful against the writers area's own bookkeeping; here that bookkeeping is
   tied to the bytes the block encoder model produced and to what the decoder makes of them.) *)
Theorem C09_end_to_end_seekpoints : forall o L md5, (forall l, length (md5 l) = 16%nat) ->
  forall p rate bps wo ch total e0 bl e f iv pts,
  encoder_new p [] wo rate bps ch total = Ok e0 ->
  reach o L p rate bps e0 bl e ->
  FlacWriters.Encoder_proofs.enc_inv e -> FlacWriters.Finish_proofs.enc_static e -> FlacWriters.Finish_proofs.frames_nonempty e ->
  e_interval e = Some iv ->
  encoder_finalize md5 p e = Ok f -> first_seektable (f_blocks f) = Some pts ->
  Forall (FlacCodec.Enc_proofs.block_ok (conv_si (f_si f)) bps) bl ->
  N.of_nat (length bl) <= FlacCodec.Header.MAX_FRAME_NUMBER + 1 ->
  FlacCodec.Enc_proofs.blocks_samples bl < 2 ^ 64 ->
  exists audio, FlacCodec.Stream.read_metadata_min (f_stream f) = Some (conv_si (f_si f), audio) /\
  forall s b m, In (Defined s b m) pts ->
    exists pre blk post h rest, bl = pre ++ blk :: post /\ s = FlacCodec.Enc_proofs.blocks_samples pre /\ m = FlacCodec.Enc.block_len blk /\
      FlacCodec.Dec.dec_frame (Some (conv_si (f_si f))) (fun _ => Ok tt) (skipn (N.to_nat b) audio) = Ok (h, blk, rest) /\
      FlacCodec.Ast.h_number h = N.of_nat (length pre).
Proof. exact e2e_seekpoints. Qed.

(* ... and for a whole FlacSampleWriter model run with a seek-table policy, hypotheses on the input only *)
Theorem C09_sample_writer_seekpoints : forall o L md5, (forall l, length (md5 l) = 16%nat) ->
  forall p rate bps wo ch total w chunks iv,
  options_wf wo -> o_seektable_interval wo = Some iv ->
  sample_new p [] wo rate bps ch total = Ok w ->
  forallb (FlacCodec.Wf.fits bps) (concat chunks) = true ->
  let W := N.of_nat (length (concat chunks)) / ch in
  1 <= W -> N.of_nat (length (concat chunks)) < 2 ^ 36 ->
  match total with Some T => T = ch * W | None => True end ->
  exists f blocks audio,
    sample_run (encB o L rate bps) md5 p w chunks = Ok f /\
    FlacCodec.Stream.read_metadata_min (f_stream f) = Some (conv_si (f_si f), audio) /\
    concat (map FlacCodec.Stream.interleave_frame blocks) = firstn (N.to_nat ch * (length (concat chunks) / N.to_nat ch)) (concat chunks) /\
    forall pts, first_seektable (f_blocks f) = Some pts ->
      forall s b m, In (Defined s b m) pts ->
        exists pre blk post h rest, blocks = pre ++ blk :: post /\ s = FlacCodec.Enc_proofs.blocks_samples pre /\ m = FlacCodec.Enc.block_len blk /\
          FlacCodec.Dec.dec_frame (Some (conv_si (f_si f))) (fun _ => Ok tt) (skipn (N.to_nat b) audio) = Ok (h, blk, rest) /\
          FlacCodec.Ast.h_number h = N.of_nat (length pre).
Proof. exact sample_writer_seekpoints. Qed.

(* C06 on written files.  The SEEKTABLE a FlacSampleWriter model run writes, seen as the readers area sees a table (sample
   number, the frame the byte offset leads to — `point_rel`, justified by C09_end_to_end_seekpoints), is truthful; so the
   abstract file of the written blocks WITH THAT TABLE on a seekable source is valid, and every history of the
   FlacSampleReader model over it, seeks included, obeys the cursor contract over exactly the samples written: a seek to
   any PCM frame in range lands there, a seek beyond fails safely *)
Theorem C06_written_file_seeks : forall o L md5, (forall l, length (md5 l) = 16%nat) ->
  forall p rate bps wo ch total w chunks iv e rp,
  options_wf wo -> o_seektable_interval wo = Some iv ->
  sample_new p [] wo rate bps ch total = Ok w ->
  forallb (FlacCodec.Wf.fits bps) (concat chunks) = true ->
  let W := N.of_nat (length (concat chunks)) / ch in
  let written := firstn (N.to_nat ch * (length (concat chunks) / N.to_nat ch)) (concat chunks) in
  1 <= W -> N.of_nat (length (concat chunks)) < 2 ^ 36 ->
  match total with Some T => T = ch * W | None => True end ->
  exists f blocks,
    sample_run (encB o L rate bps) md5 p w chunks = Ok f /\
    forall pts, first_seektable (f_blocks f) = Some pts ->
    exists table, Forall2 (point_rel blocks) pts table /\
      let F := file_of_blocks_seek blocks ch bps (Some (FlacCodec.Enc_proofs.blocks_samples blocks)) table e rp in
      FlacReaders.Spec.valid_file F /\ FlacReaders.Spec.pcm F = written /\
      forall ops, Forall FlacReaders.Spec.sop_ok (snd (FlacReaders.Seek.sample_run F ops)) ->
        let atr := map (FlacReaders.Spec.abs_s F) (snd (FlacReaders.Seek.sample_run F ops)) in
        Forall (FlacReaders.Spec.cur_ok written) atr /\
        FlacReaders.Spec.chained 0 atr (FlacReaders.Spec.spos F (fst (FlacReaders.Seek.sample_run F ops))) /\
        FlacReaders.Spec.seeks_land written atr /\ FlacReaders.Spec.failed_seeks_safe written atr.
Proof. exact written_file_seeks. Qed.

(* ... and the byte reader (serialisation of the written samples in the reader's byte order) and the channel reader (the
   de-interleaved written samples) over the same written, seekable file *)
Theorem C06_written_file_seeks_bytes_channels : forall o L md5, (forall l, length (md5 l) = 16%nat) ->
  forall p rate bps wo ch total w chunks iv e rp,
  options_wf wo -> o_seektable_interval wo = Some iv ->
  sample_new p [] wo rate bps ch total = Ok w ->
  forallb (FlacCodec.Wf.fits bps) (concat chunks) = true ->
  let W := N.of_nat (length (concat chunks)) / ch in
  let written := firstn (N.to_nat ch * (length (concat chunks) / N.to_nat ch)) (concat chunks) in
  1 <= W -> N.of_nat (length (concat chunks)) < 2 ^ 36 ->
  match total with Some T => T = ch * W | None => True end ->
  exists f blocks,
    sample_run (encB o L rate bps) md5 p w chunks = Ok f /\
    forall pts, first_seektable (f_blocks f) = Some pts ->
    exists table, Forall2 (point_rel blocks) pts table /\
      let F := file_of_blocks_seek blocks ch bps (Some (FlacCodec.Enc_proofs.blocks_samples blocks)) table e rp in
      FlacReaders.Spec.pcm_bytes F = FlacReaders.Ser.ser e (FlacReaders.Ser.bytes_per_sample bps) written /\
      (forall ops, Forall FlacReaders.Spec.bop_ok (snd (FlacReaders.Seek.byte_run F ops)) ->
        let atr := map (FlacReaders.Spec.abs_b F) (snd (FlacReaders.Seek.byte_run F ops)) in
        Forall (FlacReaders.Spec.cur_ok (FlacReaders.Spec.pcm_bytes F)) atr /\
        FlacReaders.Spec.chained 0 atr (FlacReaders.Spec.bpos F (fst (FlacReaders.Seek.byte_run F ops))) /\
        FlacReaders.Spec.seeks_land (FlacReaders.Spec.pcm_bytes F) atr /\ FlacReaders.Spec.failed_seeks_safe (FlacReaders.Spec.pcm_bytes F) atr) /\
      (forall ops c, (c < N.to_nat ch)%nat -> Forall FlacReaders.Spec.cop_ok (snd (FlacReaders.Seek.chan_run F ops)) ->
        let atr := map (FlacReaders.Spec.abs_c F c) (snd (FlacReaders.Seek.chan_run F ops)) in
        Forall (FlacReaders.Spec.cur_ok (FlacReaders.Spec.chan_pcm F c)) atr /\
        FlacReaders.Spec.chained 0 atr (FlacReaders.Spec.cpos (fst (FlacReaders.Seek.chan_run F ops))) /\
        FlacReaders.Spec.seeks_land (FlacReaders.Spec.chan_pcm F c) atr /\ FlacReaders.Spec.failed_seeks_safe (FlacReaders.Spec.chan_pcm F c) atr) /\
      (forall c, (c < N.to_nat ch)%nat -> forall i, (i < length written / N.to_nat ch)%nat ->
        nth_error (FlacReaders.Spec.chan_pcm F c) i = nth_error written (i * N.to_nat ch + c)).
Proof. exact written_file_seeks_bytes_channels. Qed.

(* C09 for the other two front-ends, by transfer: a byte writer run (either byte order) and a channel writer run ARE
   sample writer runs over the samples they spell (C08_byte_run_is_sample_run / C08_channel_run_is_sample_run), and
   the constructors succeed together (byte_new_sample_new / channel_new_sample_new) *)
Theorem C09_byte_writer_seekpoints : forall o L md5, (forall l, length (md5 l) = 16%nat) ->
  forall p rate bps en wo ch tb wb chunks iv,
  options_wf wo -> o_seektable_interval wo = Some iv ->
  byte_new p en [] wo rate bps ch tb = Ok wb ->
  Forall byte_ok (concat chunks) ->
  let samples := decoded en (N.to_nat (bytes_per_sample_of bps)) (concat chunks) in
  forallb (FlacCodec.Wf.fits bps) samples = true ->
  let W := N.of_nat (length samples) / ch in
  1 <= W -> N.of_nat (length samples) < 2 ^ 36 ->
  match tb with Some T => T = bytes_per_sample_of bps * (ch * W) | None => True end ->
  exists f blocks audio,
    byte_run (encB o L rate bps) md5 p wb chunks = Ok f /\
    FlacCodec.Stream.read_metadata_min (f_stream f) = Some (conv_si (f_si f), audio) /\
    concat (map FlacCodec.Stream.interleave_frame blocks) = firstn (N.to_nat ch * (length samples / N.to_nat ch)) samples /\
    forall pts, first_seektable (f_blocks f) = Some pts ->
      forall s b m, In (Defined s b m) pts ->
        exists pre blk post h rest, blocks = pre ++ blk :: post /\ s = FlacCodec.Enc_proofs.blocks_samples pre /\ m = FlacCodec.Enc.block_len blk /\
          FlacCodec.Dec.dec_frame (Some (conv_si (f_si f))) (fun _ => Ok tt) (skipn (N.to_nat b) audio) = Ok (h, blk, rest) /\
          FlacCodec.Ast.h_number h = N.of_nat (length pre).
Proof. exact byte_writer_seekpoints. Qed.
Theorem C09_channel_writer_seekpoints : forall o L md5, (forall l, length (md5 l) = 16%nat) ->
  forall p rate bps wo ch tc wc chunks iv,
  options_wf wo -> o_seektable_interval wo = Some iv ->
  channel_new p [] wo rate bps ch tc = Ok wc ->
  Forall (chunk_ok (N.to_nat ch)) chunks ->
  let samples := concat (multizip (cconcat (N.to_nat ch) chunks)) in
  forallb (FlacCodec.Wf.fits bps) samples = true ->
  let W := N.of_nat (length samples) / ch in
  1 <= W -> N.of_nat (length samples) < 2 ^ 36 ->
  match tc with Some T => T = W | None => True end ->
  exists f blocks audio,
    channel_run (encB o L rate bps) md5 p wc chunks = Ok f /\
    FlacCodec.Stream.read_metadata_min (f_stream f) = Some (conv_si (f_si f), audio) /\
    concat (map FlacCodec.Stream.interleave_frame blocks) = firstn (N.to_nat ch * (length samples / N.to_nat ch)) samples /\
    forall pts, first_seektable (f_blocks f) = Some pts ->
      forall s b m, In (Defined s b m) pts ->
        exists pre blk post h rest, blocks = pre ++ blk :: post /\ s = FlacCodec.Enc_proofs.blocks_samples pre /\ m = FlacCodec.Enc.block_len blk /\
          FlacCodec.Dec.dec_frame (Some (conv_si (f_si f))) (fun _ => Ok tt) (skipn (N.to_nat b) audio) = Ok (h, blk, rest) /\
          FlacCodec.Ast.h_number h = N.of_nat (length pre).
Proof. exact channel_writer_seekpoints. Qed.

(* C06 on files written through the other two front-ends, by transfer *)
Theorem C06_byte_written_file_seeks : forall o L md5, (forall l, length (md5 l) = 16%nat) ->
  forall p rate bps en wo ch tb wb chunks iv e rp,
  options_wf wo -> o_seektable_interval wo = Some iv ->
  byte_new p en [] wo rate bps ch tb = Ok wb ->
  Forall byte_ok (concat chunks) ->
  let samples := decoded en (N.to_nat (bytes_per_sample_of bps)) (concat chunks) in
  forallb (FlacCodec.Wf.fits bps) samples = true ->
  let W := N.of_nat (length samples) / ch in
  let written := firstn (N.to_nat ch * (length samples / N.to_nat ch)) samples in
  1 <= W -> N.of_nat (length samples) < 2 ^ 36 ->
  match tb with Some T => T = bytes_per_sample_of bps * (ch * W) | None => True end ->
  exists f blocks,
    byte_run (encB o L rate bps) md5 p wb chunks = Ok f /\
    forall pts, first_seektable (f_blocks f) = Some pts ->
    exists table, Forall2 (point_rel blocks) pts table /\
      let F := file_of_blocks_seek blocks ch bps (Some (FlacCodec.Enc_proofs.blocks_samples blocks)) table e rp in
      FlacReaders.Spec.valid_file F /\ FlacReaders.Spec.pcm F = written /\
      forall ops, Forall FlacReaders.Spec.sop_ok (snd (FlacReaders.Seek.sample_run F ops)) ->
        let atr := map (FlacReaders.Spec.abs_s F) (snd (FlacReaders.Seek.sample_run F ops)) in
        Forall (FlacReaders.Spec.cur_ok written) atr /\
        FlacReaders.Spec.chained 0 atr (FlacReaders.Spec.spos F (fst (FlacReaders.Seek.sample_run F ops))) /\
        FlacReaders.Spec.seeks_land written atr /\ FlacReaders.Spec.failed_seeks_safe written atr.
Proof. exact byte_written_file_seeks. Qed.
Theorem C06_channel_written_file_seeks : forall o L md5, (forall l, length (md5 l) = 16%nat) ->
  forall p rate bps wo ch tc wc chunks iv e rp,
  options_wf wo -> o_seektable_interval wo = Some iv ->
  channel_new p [] wo rate bps ch tc = Ok wc ->
  Forall (chunk_ok (N.to_nat ch)) chunks ->
  let samples := concat (multizip (cconcat (N.to_nat ch) chunks)) in
  forallb (FlacCodec.Wf.fits bps) samples = true ->
  let W := N.of_nat (length samples) / ch in
  let written := firstn (N.to_nat ch * (length samples / N.to_nat ch)) samples in
  1 <= W -> N.of_nat (length samples) < 2 ^ 36 ->
  match tc with Some T => T = W | None => True end ->
  exists f blocks,
    channel_run (encB o L rate bps) md5 p wc chunks = Ok f /\
    forall pts, first_seektable (f_blocks f) = Some pts ->
    exists table, Forall2 (point_rel blocks) pts table /\
      let F := file_of_blocks_seek blocks ch bps (Some (FlacCodec.Enc_proofs.blocks_samples blocks)) table e rp in
      FlacReaders.Spec.valid_file F /\ FlacReaders.Spec.pcm F = written /\
      forall ops, Forall FlacReaders.Spec.sop_ok (snd (FlacReaders.Seek.sample_run F ops)) ->
        let atr := map (FlacReaders.Spec.abs_s F) (snd (FlacReaders.Seek.sample_run F ops)) in
        Forall (FlacReaders.Spec.cur_ok written) atr /\
        FlacReaders.Spec.chained 0 atr (FlacReaders.Spec.spos F (fst (FlacReaders.Seek.sample_run F ops))) /\
        FlacReaders.Spec.seeks_land written atr /\ FlacReaders.Spec.failed_seeks_safe written atr.
Proof. exact channel_written_file_seeks. Qed.

(* C07 composed with the codec area for EVERY file, not only those this crate wrote.  Whenever the stream decoder model
   reads a file to a clean end, the frames it returns are the interleavings of blocks whose abstract file is VALID in
   the readers area's sense (channel counts, block shapes, the declared total, the short-block rule the decoder
   enforces: the hypothesis of every C06/C07 theorem), so every seek-free history of the sample reader model delivers
   exactly the decoded samples, once and in order.  With C03 (the decoder returns the RFC semantics of every valid
   stream) this is the readers' contract on all valid FLAC files. *)
Theorem C07_decoded_file_is_read : forall file si frames e rp,
  FlacCodec.Stream.dec_stream file = Some (si, frames, FlacCodec.Stream.EndEof) ->
  1 <= FlacCodec.Ast.si_channels si -> 1 <= FlacCodec.Ast.si_bps si <= 32 ->
  N.of_nat (length (concat frames)) < 2 ^ 36 ->
  exists blocks, frames = map FlacCodec.Stream.interleave_frame blocks /\
    let F := file_of_blocks blocks (FlacCodec.Ast.si_channels si) (FlacCodec.Ast.si_bps si)
               (if FlacCodec.Ast.si_total si =? 0 then None else Some (FlacCodec.Ast.si_total si)) e rp in
    FlacReaders.Spec.valid_file F /\ FlacReaders.Spec.pcm F = concat frames /\
    forall ops, FlacReaders.Spec.no_sseek ops -> Forall FlacReaders.Spec.sop_ok (snd (FlacReaders.Seek.sample_run F ops)) ->
      let atr := map (FlacReaders.Spec.abs_s F) (snd (FlacReaders.Seek.sample_run F ops)) in
      Forall (FlacReaders.Spec.cur_ok (concat frames)) atr /\
      FlacReaders.Spec.chained 0 atr (FlacReaders.Spec.spos F (fst (FlacReaders.Seek.sample_run F ops))) /\
      FlacReaders.Spec.exactly_once (concat frames) atr.
Proof. exact decoded_file_is_read. Qed.

(* C14 for FlacByteWriter (either byte order; writes cut anywhere, also inside a sample): by equality of the Encoder state
   with the sample writer's after the PCM those bytes spell (writers area: Cross_writes.byte_write_is_sample_write) *)
Theorem C14_byte_writer_interrupted : forall o L p en rate bps wo ch tb wb chunks wb',
  options_wf wo ->
  byte_new p en [] wo rate bps ch tb = Ok wb ->
  fold_res (byte_write (encB o L rate bps) p) wb chunks = Ok wb' ->
  Forall byte_ok (concat chunks) ->
  let pcm := decoded en (N.to_nat (bytes_per_sample_of bps)) (concat chunks) in
  forallb (FlacCodec.Wf.fits bps) pcm = true ->
  N.of_nat (length pcm) < 2 ^ 36 ->
  let si := conv_si (e_si (bw_enc wb)) in
  let K := N.to_nat (ch * o_block_size wo) in
  exists bl,
    concat (map FlacCodec.Stream.interleave_frame bl) = firstn (K * (length pcm / K)) pcm /\
    forall b gb m,
      FlacCodec.Enc_proofs.block_ok si bps b -> FlacCodec.Enc.block_len b = o_block_size wo ->
      FlacCodec.Enc.enc_frame_bytes o L rate bps (N.of_nat (length bl)) b = Some gb -> (m < length gb)%nat ->
      match si_total (e_si (bw_enc wb)) with Some t => FlacCodec.Enc_proofs.blocks_samples bl + FlacCodec.Enc.block_len b <= t | None => True end ->
      match FlacCodec.Stream.dec_stream (stream (bw_enc wb') ++ firstn m gb) with
      | Some (si', out, en') => si' = si /\ out = map FlacCodec.Stream.interleave_frame bl /\ FlacCodec.Progress.is_end_panic en' = false
      | None => False
      end.
Proof. exact byte_writer_interrupted. Qed.

(* ... and for FlacChannelWriter (any well-formed write arguments), through Cross_writes.channel_write_is_sample_write *)
Theorem C14_channel_writer_interrupted : forall o L p rate bps wo ch tc wc chunks wc',
  options_wf wo ->
  channel_new p [] wo rate bps ch tc = Ok wc ->
  fold_res (channel_write (encB o L rate bps) p) wc chunks = Ok wc' ->
  Forall (chunk_ok (N.to_nat ch)) chunks ->
  let pcm := concat (multizip (cconcat (N.to_nat ch) chunks)) in
  forallb (FlacCodec.Wf.fits bps) pcm = true ->
  N.of_nat (length pcm) < 2 ^ 36 ->
  let si := conv_si (e_si (cw_enc wc)) in
  let K := N.to_nat (ch * o_block_size wo) in
  exists bl,
    concat (map FlacCodec.Stream.interleave_frame bl) = firstn (K * (length pcm / K)) pcm /\
    forall b gb m,
      FlacCodec.Enc_proofs.block_ok si bps b -> FlacCodec.Enc.block_len b = o_block_size wo ->
      FlacCodec.Enc.enc_frame_bytes o L rate bps (N.of_nat (length bl)) b = Some gb -> (m < length gb)%nat ->
      match si_total (e_si (cw_enc wc)) with Some t => FlacCodec.Enc_proofs.blocks_samples bl + FlacCodec.Enc.block_len b <= t | None => True end ->
      match FlacCodec.Stream.dec_stream (stream (cw_enc wc') ++ firstn m gb) with
      | Some (si', out, en') => si' = si /\ out = map FlacCodec.Stream.interleave_frame bl /\ FlacCodec.Progress.is_end_panic en' = false
      | None => False
      end.
Proof. exact channel_writer_interrupted. Qed.

(* C04, the size half for whole streams: whatever the bytes and however decoding ends, every decoded frame holds at most
   8 x 65535 samples and consumed at least two bytes of input, so the output is paid for by input *)
Theorem C04_stream_output_bounded : forall file si frames en,
  FlacCodec.Stream.dec_stream file = Some (si, frames, en) ->
  1 <= FlacCodec.Ast.si_channels si -> FlacCodec.Ast.si_channels si <= 8 ->
  2 * N.of_nat (length (concat frames)) <= 524280 * N.of_nat (length file).
Proof. exact stream_output_bounded. Qed.

(* C04 composed with the reader front-ends, for EVERY byte string (shorter than 2^48 bytes): the blocks the stream decoder
   model hands out before it ends, followed by any number of failing frames, form a stream on which no seek-free history
   of the sample, byte or channel reader model panics *)
Theorem C04_any_file_readers_never_panic : forall file si frames en,
  CS.dec_stream file = Some (si, frames, en) -> 1 <= A.si_channels si ->
  N.of_nat (length file) < 2 ^ 48 ->
  exists blocks, frames = map CS.interleave_frame blocks /\
    forall (F : R.file) tail,
      R.f_slots F = map R.SFrame blocks ++ tail -> all_bad tail -> R.f_channels F = A.si_channels si ->
      (forall ops, RS.no_sseek ops -> Forall FlacReaders.Damaged.s_consume_ok (snd (FlacReaders.Seek.sample_run F ops)) ->
         Forall (fun x => forall k, snd x <> R.OPanic k) (snd (FlacReaders.Seek.sample_run F ops))) /\
      (forall ops, 1 <= Ser.bytes_per_sample (R.f_bps F) <= 4 ->
         RS.no_bseek ops -> Forall FlacReaders.Damaged.b_consume_ok (snd (FlacReaders.Seek.byte_run F ops)) ->
         Forall (fun x => forall k, snd x <> R.OPanic k) (snd (FlacReaders.Seek.byte_run F ops))) /\
      (forall ops, R.f_rev F = R.Repaired ->
         RS.no_cseek ops -> Forall FlacReaders.Damaged.c_consume_ok (snd (FlacReaders.Seek.chan_run F ops)) ->
         Forall (fun x => forall k, snd x <> R.OPanic k) (snd (FlacReaders.Seek.chan_run F ops))).
Proof. exact any_file_readers_never_panic. Qed.

(* C05 + C07 for damaged files — EVERY byte string on which the stream decoder model decodes some frames and then fails
   (any error): over the abstract stream "the blocks decoded so far, then a frame that fails" (whatever the failed decode
   left in the frame buffer, whatever follows), what ANY seek-free history of the sample reader model hands out or shows
   up to and including the first call that reports an error is a gap-free prefix of the samples the decoder had decoded —
   nothing else is ever delivered —, no call panics, and the failure is reported only when all of them have been handed
   out or are buffered *)
Theorem C05_damaged_file_is_read : forall file si frames err,
  FlacCodec.Stream.dec_stream file = Some (si, frames, FlacCodec.Stream.EndErr err) -> 1 <= FlacCodec.Ast.si_channels si ->
  exists blocks, frames = map FlacCodec.Stream.interleave_frame blocks /\
    forall (F : FlacReaders.Readers.file) g rest ops,
      FlacReaders.Readers.f_slots F = map FlacReaders.Readers.SFrame blocks ++ FlacReaders.Readers.SBad g :: rest ->
      FlacReaders.Readers.f_channels F = FlacCodec.Ast.si_channels si ->
      FlacReaders.Spec.sumlen (map FlacReaders.Readers.SFrame blocks) < FlacReaders.RNum.U64 ->
      FlacReaders.Spec.no_sseek ops -> Forall FlacReaders.Damaged.s_consume_ok (snd (FlacReaders.Seek.sample_run F ops)) ->
      forall pre x post, snd (FlacReaders.Seek.sample_run F ops) = pre ++ x :: post ->
        Forall (fun y => FlacReaders.Damaged.failed (snd y) = false) pre ->
        FlacReaders.Spec.prefix (FlacReaders.Damaged.s_delivered pre ++ FlacReaders.Damaged.s_shown x) (concat frames) /\
        (forall p, snd x <> FlacReaders.Readers.OPanic p) /\
        (snd x = FlacReaders.Readers.OErr ECrc16 ->
           FlacReaders.Damaged.s_delivered pre ++ FlacReaders.Readers.sr_buf (fst (fst x)) = concat frames).
Proof. exact damaged_file_is_read. Qed.

(* ... and the byte reader (either byte order) and the channel reader (any channel) over the same damaged stream *)
Theorem C05_damaged_file_is_read_bytes_channels : forall file si frames err,
  CS.dec_stream file = Some (si, frames, CS.EndErr err) -> 1 <= A.si_channels si ->
  exists blocks, frames = map CS.interleave_frame blocks /\
    (forall (F : R.file) g rest ops,
      R.f_slots F = map R.SFrame blocks ++ R.SBad g :: rest -> R.f_channels F = A.si_channels si ->
      RS.sumlen (map R.SFrame blocks) < FlacReaders.RNum.U64 ->
      1 <= Ser.bytes_per_sample (R.f_bps F) <= 4 ->
      RS.no_bseek ops -> Forall RD.b_consume_ok (snd (FlacReaders.Seek.byte_run F ops)) ->
      forall pre x post, snd (FlacReaders.Seek.byte_run F ops) = pre ++ x :: post ->
        Forall (fun y => RD.failed (snd y) = false) pre ->
        RS.prefix (RD.b_delivered pre ++ RD.b_shown x)
                  (Ser.ser (R.f_endian F) (Ser.bytes_per_sample (R.f_bps F)) (concat frames)) /\
        (forall p, snd x <> R.OPanic p) /\
        (snd x = R.OErr ECrc16 ->
           RD.b_delivered pre ++ R.br_buf (fst (fst x)) =
           Ser.ser (R.f_endian F) (Ser.bytes_per_sample (R.f_bps F)) (concat frames))) /\
    (forall (F : R.file) g rest c ops,
      R.f_slots F = map R.SFrame blocks ++ R.SBad g :: rest -> R.f_channels F = A.si_channels si ->
      RS.sumlen (map R.SFrame blocks) < FlacReaders.RNum.U64 ->
      (c < N.to_nat (A.si_channels si))%nat -> R.f_rev F = R.Repaired ->
      RS.no_cseek ops -> Forall RD.c_consume_ok (snd (FlacReaders.Seek.chan_run F ops)) ->
      forall pre x post, snd (FlacReaders.Seek.chan_run F ops) = pre ++ x :: post ->
        Forall (fun y => RD.failed (snd y) = false) pre ->
        RS.prefix (RD.c_delivered c pre ++ RD.c_shown c x) (concat (map (fun b => nth c b []) blocks)) /\
        (forall p, snd x <> R.OPanic p) /\
        (snd x = R.OErr ECrc16 ->
           RD.c_delivered c pre ++ RD.c_view c (fst (fst x)) = concat (map (fun b => nth c b []) blocks))).
Proof. exact damaged_file_is_read_bytes_channels. Qed.

(* C03 + C07: a file made of ANY valid frame trees — every legal syntactic alternative, not only this encoder's — behind a
   STREAMINFO and any further metadata blocks: the sample reader model delivers the RFC 9639 semantics of the frames,
   exactly once and in order, under every seek-free call history *)
Theorem C03_valid_file_is_read : forall si others fs allb (e : FlacReaders.Ser.endian) (rp : FlacReaders.RNum.profile),
  FlacCodec.File.si_ok si -> FlacCodec.File.blocks_ok others ->
  Forall (FlacCodec.Interrupted.frame_ok si) fs -> FlacCodec.Interrupted.frames_bytes fs = Some allb ->
  (FlacCodec.Ast.si_total si = 0 \/ FlacCodec.Interrupted.total_samples fs = FlacCodec.Ast.si_total si) ->
  let pcm := concat (map (fun f => FlacCodec.Stream.interleave_frame (FlacCodec.Struct.sem_frame f)) fs) in
  N.of_nat (length pcm) < 2 ^ 36 ->
  exists F, FlacReaders.Spec.valid_file F /\ FlacReaders.Spec.pcm F = pcm /\
    forall ops, FlacReaders.Spec.no_sseek ops -> Forall FlacReaders.Spec.sop_ok (snd (FlacReaders.Seek.sample_run F ops)) ->
      let atr := map (FlacReaders.Spec.abs_s F) (snd (FlacReaders.Seek.sample_run F ops)) in
      Forall (FlacReaders.Spec.cur_ok pcm) atr /\
      FlacReaders.Spec.chained 0 atr (FlacReaders.Spec.spos F (fst (FlacReaders.Seek.sample_run F ops))) /\
      FlacReaders.Spec.exactly_once pcm atr.
Proof. exact valid_file_is_read. Qed.

Theorem C07_decoded_file_is_read_bytes_channels : forall file si frames e rp,
  FlacCodec.Stream.dec_stream file = Some (si, frames, FlacCodec.Stream.EndEof) ->
  1 <= FlacCodec.Ast.si_channels si -> 1 <= FlacCodec.Ast.si_bps si <= 32 ->
  N.of_nat (length (concat frames)) < 2 ^ 36 ->
  exists blocks, frames = map FlacCodec.Stream.interleave_frame blocks /\
    let F := file_of_blocks blocks (FlacCodec.Ast.si_channels si) (FlacCodec.Ast.si_bps si)
               (if FlacCodec.Ast.si_total si =? 0 then None else Some (FlacCodec.Ast.si_total si)) e rp in
    FlacReaders.Spec.pcm_bytes F = FlacReaders.Ser.ser e (FlacReaders.Ser.bytes_per_sample (FlacCodec.Ast.si_bps si)) (concat frames) /\
    (forall ops, FlacReaders.Spec.no_bseek ops -> Forall FlacReaders.Spec.bop_ok (snd (FlacReaders.Seek.byte_run F ops)) ->
      let atr := map (FlacReaders.Spec.abs_b F) (snd (FlacReaders.Seek.byte_run F ops)) in
      Forall (FlacReaders.Spec.cur_ok (FlacReaders.Spec.pcm_bytes F)) atr /\
      FlacReaders.Spec.chained 0 atr (FlacReaders.Spec.bpos F (fst (FlacReaders.Seek.byte_run F ops))) /\
      FlacReaders.Spec.exactly_once (FlacReaders.Spec.pcm_bytes F) atr) /\
    (forall ops c, (c < N.to_nat (FlacCodec.Ast.si_channels si))%nat -> FlacReaders.Spec.no_cseek ops ->
      Forall FlacReaders.Spec.cop_ok (snd (FlacReaders.Seek.chan_run F ops)) ->
      let atr := map (FlacReaders.Spec.abs_c F c) (snd (FlacReaders.Seek.chan_run F ops)) in
      Forall (FlacReaders.Spec.cur_ok (FlacReaders.Spec.chan_pcm F c)) atr /\
      FlacReaders.Spec.chained 0 atr (FlacReaders.Spec.cpos (fst (FlacReaders.Seek.chan_run F ops))) /\
      FlacReaders.Spec.exactly_once (FlacReaders.Spec.chan_pcm F c) atr /\
      Forall (FlacReaders.Spec.chan_shape F) (snd (FlacReaders.Seek.chan_run F ops))) /\
    (forall c, (c < N.to_nat (FlacCodec.Ast.si_channels si))%nat -> forall i, (i < N.to_nat (FlacReaders.Spec.total_frames F))%nat ->
      nth_error (FlacReaders.Spec.chan_pcm F c) i = nth_error (concat frames) (i * N.to_nat (FlacCodec.Ast.si_channels si) + c)).
Proof. exact decoded_file_is_read_bytes_channels. Qed.

(* C15, the completeness direction of the length contract with the REAL block encoder plugged in ("exact fill => Ok"):
   parameters the constructor accepts, samples in range, at least one whole PCM frame, fewer than 2^36 samples, and a
   declared total (if any) that is exactly what is written => the run, under any chunking, returns a finished file;
   for the three front-ends.  (The writers area proves the soundness direction, C15_length_contract_sample.) *)
Theorem C15_exact_fill_succeeds_sample : forall o L md5, (forall l, length (md5 l) = 16%nat) ->
  forall p rate bps ch, rate < 2 ^ 20 -> 1 <= bps -> bps <= 32 -> 1 <= ch -> ch <= 8 ->
  forall wo total w (chunks : list (list Z)),
  options_wf wo ->
  sample_new p [] wo rate bps ch total = Ok w ->
  forallb (FlacCodec.Wf.fits bps) (concat chunks) = true ->
  let W := N.of_nat (length (concat chunks)) / ch in
  1 <= W -> N.of_nat (length (concat chunks)) < 2 ^ 36 ->
  match total with Some T => T = ch * W | None => True end ->
  exists f, sample_run (encB o L rate bps) md5 p w chunks = Ok f /\ FlacWriters.Encoder_proofs.counters_fit (f_enc f).
Proof. exact sample_run_succeeds. Qed.

Theorem C15_exact_fill_succeeds_byte : forall o L md5, (forall l, length (md5 l) = 16%nat) ->
  forall p rate bps ch, rate < 2 ^ 20 -> 1 <= bps -> bps <= 32 -> 1 <= ch -> ch <= 8 ->
  forall en wo total w (chunks : list (list N)),
  options_wf wo ->
  byte_new p en [] wo rate bps ch total = Ok w ->
  Forall byte_ok (concat chunks) ->
  let n := N.to_nat (bytes_per_sample_of bps) in
  let samples := decode_bytes en n (concat chunks) in
  forallb (FlacCodec.Wf.fits bps) samples = true ->
  let W := N.of_nat (length samples) / ch in
  1 <= W -> N.of_nat (length samples) < 2 ^ 36 ->
  match total with Some T => T = bytes_per_sample_of bps * ch * W | None => True end ->
  exists f, byte_run (encB o L rate bps) md5 p w chunks = Ok f.
Proof. exact byte_run_succeeds. Qed.

Theorem C15_exact_fill_succeeds_channel : forall o L md5, (forall l, length (md5 l) = 16%nat) ->
  forall p rate bps ch, rate < 2 ^ 20 -> 1 <= bps -> bps <= 32 -> 1 <= ch -> ch <= 8 ->
  forall wo total w (chunks : list (list (list Z))),
  options_wf wo ->
  channel_new p [] wo rate bps ch total = Ok w ->
  Forall (chunk_ok (N.to_nat ch)) chunks ->
  let all := cconcat (N.to_nat ch) chunks in
  forallb (FlacCodec.Wf.fits bps) (concat all) = true ->
  let m := length (hd [] all) in
  (1 <= m)%nat -> N.of_nat m < 2 ^ 36 ->
  match total with Some T => T = N.of_nat m | None => True end ->
  exists f, channel_run (encB o L rate bps) md5 p w chunks = Ok f.
Proof. exact channel_run_succeeds. Qed.

(* C08 "never Panic" for the byte and channel front-ends, by equality of runs with the sample writer (debug build: only the
   overflow trap of a 2^64 counter can stop a run; the block encoder is assumed not to panic) *)
Theorem C08_no_panic_byte_debug : forall enc_block md5 en o rate bps ch total w (chunks : list (list N)),
  (forall l, length (md5 l) = 16%nat) -> (forall n b, is_panic (enc_block n b) = false) ->
  options_wf o -> byte_new Debug en [] o rate bps ch total = Ok w -> Forall byte_ok (concat chunks) ->
  match byte_run enc_block md5 Debug w chunks with Panic k => k = POverflow | _ => True end.
Proof. exact byte_run_safe_debug. Qed.

Theorem C08_no_panic_channel_debug : forall enc_block md5 o rate bps ch total w (chunks : list (list (list Z))),
  (forall l, length (md5 l) = 16%nat) -> (forall n b, is_panic (enc_block n b) = false) ->
  options_wf o -> channel_new Debug [] o rate bps ch total = Ok w -> Forall (chunk_ok (N.to_nat ch)) chunks ->
  match channel_run enc_block md5 Debug w chunks with Panic k => k = POverflow | _ => True end.
Proof. exact channel_run_safe_debug. Qed.

(* C15 declared-length contract, soundness direction, for the byte and channel front-ends (by equality of runs with the
   sample writer): a successful run wrote exactly the declared amount, and STREAMINFO records the whole PCM frames *)
Theorem C15_length_contract_byte : forall enc_block md5 p en o rate bps ch total w (chunks : list (list N)) f,
  (forall l, length (md5 l) = 16%nat) ->
  options_wf o -> byte_new p en [] o rate bps ch total = Ok w -> Forall byte_ok (concat chunks) ->
  byte_run enc_block md5 p w chunks = Ok f -> FlacWriters.Encoder_proofs.counters_fit (f_enc f) ->
  let nb := bytes_per_sample_of bps in
  let samples := decoded en (N.to_nat nb) (concat chunks) in
  exists cs r, drain (N.to_nat (ch * o_block_size o)) samples = (cs, r) /\
    let written := o_block_size o * N.of_nat (length cs) + N.of_nat (length r) / ch in
    si_total (f_si f) = Some written /\ 1 <= written < MAX_SAMPLES /\
    match total with Some t => t = nb * (ch * written) | None => True end.
Proof. exact byte_length_contract. Qed.

Theorem C15_length_contract_channel : forall enc_block md5 p o rate bps ch total w (chunks : list (list (list Z))) f,
  (forall l, length (md5 l) = 16%nat) -> 1 <= ch ->
  options_wf o -> channel_new p [] o rate bps ch total = Ok w -> Forall (chunk_ok (N.to_nat ch)) chunks ->
  channel_run enc_block md5 p w chunks = Ok f -> FlacWriters.Encoder_proofs.counters_fit (f_enc f) ->
  let samples := concat (multizip (cconcat (N.to_nat ch) chunks)) in
  exists cs r, drain (N.to_nat (ch * o_block_size o)) samples = (cs, r) /\
    let written := o_block_size o * N.of_nat (length cs) + N.of_nat (length r) / ch in
    si_total (f_si f) = Some written /\ 1 <= written < MAX_SAMPLES /\
    match total with Some t => t = written | None => True end.
Proof. exact channel_length_contract. Qed.

(* C08: bytes that do not complete a PCM frame (also ending inside a sample) change nothing in the file a FlacByteWriter finishes *)
Theorem C08_partial_dropped_byte : forall enc_block md5 p en o rate bps ch total w (x partial : list N) k,
  options_wf o -> 1 <= bps -> 1 <= ch ->
  byte_new p en [] o rate bps ch total = Ok w -> Forall byte_ok x -> Forall byte_ok partial ->
  let nb := N.to_nat (bytes_per_sample_of bps) in
  length x = (nb * (N.to_nat ch * k))%nat -> (length partial < nb * N.to_nat ch)%nat ->
  byte_run enc_block md5 p w [x ++ partial] = byte_run enc_block md5 p w [x].
Proof. exact byte_partial_dropped. Qed.

(* C19 composed with the writers area, hypotheses on the input only: the audio part of the finished file is at most the
   sum over the encoded blocks of (16 header bytes + the channels verbatim, one more bit per sample for the side channel of
   a stereo pair, rounded up to bytes + 2 CRC bytes) — `blocks_bound`, defined in SizeBound.v *)
Theorem C19_written_audio_size_bounded : forall o L md5, (forall l, length (md5 l) = 16%nat) ->
  forall p rate bps ch, rate < 2 ^ 20 -> 1 <= bps -> bps <= 32 -> 1 <= ch -> ch <= 8 ->
  forall wo total w chunks,
  options_wf wo ->
  sample_new p [] wo rate bps ch total = Ok w ->
  forallb (FlacCodec.Wf.fits bps) (concat chunks) = true ->
  let W := N.of_nat (length (concat chunks)) / ch in
  1 <= W -> N.of_nat (length (concat chunks)) < 2 ^ 36 ->
  match total with Some T => T = ch * W | None => True end ->
  exists f blocks,
    sample_run (encB o L rate bps) md5 p w chunks = Ok f /\
    concat (map FlacCodec.Stream.interleave_frame blocks) =
      firstn (N.to_nat ch * (length (concat chunks) / N.to_nat ch)) (concat chunks) /\
    N.of_nat (length (frames_bytes (f_enc f))) <= blocks_bound bps blocks.
Proof. exact written_audio_size_bounded. Qed.

(* ... the same for FlacByteWriter and FlacChannelWriter runs *)
Theorem C19_byte_written_audio_size_bounded : forall o L md5, (forall l, length (md5 l) = 16%nat) ->
  forall p rate bps ch, rate < 2 ^ 20 -> 1 <= bps -> bps <= 32 -> 1 <= ch -> ch <= 8 ->
  forall en wo total w (chunks : list (list N)),
  options_wf wo ->
  byte_new p en [] wo rate bps ch total = Ok w ->
  Forall byte_ok (concat chunks) ->
  let nb := bytes_per_sample_of bps in
  let samples := decoded en (N.to_nat nb) (concat chunks) in
  forallb (FlacCodec.Wf.fits bps) samples = true ->
  let W := N.of_nat (length samples) / ch in
  1 <= W -> N.of_nat (length samples) < 2 ^ 36 ->
  match total with Some T => T = nb * (ch * W) | None => True end ->
  exists f blocks,
    byte_run (encB o L rate bps) md5 p w chunks = Ok f /\
    concat (map FlacCodec.Stream.interleave_frame blocks) =
      firstn (N.to_nat ch * (length samples / N.to_nat ch)) samples /\
    N.of_nat (length (frames_bytes (f_enc f))) <= blocks_bound bps blocks.
Proof. exact byte_written_audio_size_bounded. Qed.

Theorem C19_channel_written_audio_size_bounded : forall o L md5, (forall l, length (md5 l) = 16%nat) ->
  forall p rate bps ch, rate < 2 ^ 20 -> 1 <= bps -> bps <= 32 -> 1 <= ch -> ch <= 8 ->
  forall wo total w (chunks : list (list (list Z))),
  options_wf wo ->
  channel_new p [] wo rate bps ch total = Ok w ->
  Forall (chunk_ok (N.to_nat ch)) chunks ->
  let samples := concat (multizip (cconcat (N.to_nat ch) chunks)) in
  forallb (FlacCodec.Wf.fits bps) samples = true ->
  let W := N.of_nat (length samples) / ch in
  1 <= W -> N.of_nat (length samples) < 2 ^ 36 ->
  match total with Some T => T = W | None => True end ->
  exists f blocks,
    channel_run (encB o L rate bps) md5 p w chunks = Ok f /\
    concat (map FlacCodec.Stream.interleave_frame blocks) =
      firstn (N.to_nat ch * (length samples / N.to_nat ch)) samples /\
    N.of_nat (length (frames_bytes (f_enc f))) <= blocks_bound bps blocks.
Proof. exact channel_written_audio_size_bounded. Qed.

Print Assumptions C07_decoded_file_is_read_bytes_channels.
Print Assumptions C03_valid_file_is_read.
Print Assumptions C07_decoded_file_is_read.
Print Assumptions C06_byte_written_file_seeks.
Print Assumptions C06_channel_written_file_seeks.
Print Assumptions C09_byte_writer_seekpoints.
Print Assumptions C09_channel_writer_seekpoints.
Print Assumptions C06_written_file_seeks_bytes_channels.
Print Assumptions C06_written_file_seeks.
Print Assumptions C09_end_to_end_seekpoints.
Print Assumptions C09_sample_writer_seekpoints.
Print Assumptions C14_end_to_end_interrupted.
Print Assumptions C14_sample_writer_interrupted.
Print Assumptions C02_byte_writer_file_valid.
Print Assumptions C02_channel_writer_file_valid.
Print Assumptions C02_sample_writer_file_valid.
Print Assumptions C01_written_bytes_are_read.
Print Assumptions C01_written_channels_are_read.
Print Assumptions C01_byte_writer_lossless.
Print Assumptions C01_channel_writer_lossless.
Print Assumptions C01_end_to_end_bytes.
Print Assumptions C01_end_to_end_channels.
Print Assumptions C01_written_samples_are_read.
Print Assumptions C01_sample_writer_lossless.
Print Assumptions C01_written_metadata_is_read.
Print Assumptions C01_end_to_end_samples.
Print Assumptions C14_byte_writer_interrupted.
Print Assumptions C14_channel_writer_interrupted.
Print Assumptions C04_stream_output_bounded.
Print Assumptions C04_any_file_readers_never_panic.
Print Assumptions C05_damaged_file_is_read.
Print Assumptions C05_damaged_file_is_read_bytes_channels.
Print Assumptions C01_end_to_end_encoder.
Print Assumptions C01_end_to_end_sample_writer.

(* non-vacuity, evaluated inside Coq: FlacSampleWriter model (block size 16, padding 40, seek point every frame,
   undeclared total) x the encoder model (no LPC) on 40 stereo PCM frames written in two uneven chunks; the stream
   decoder model opens the finished file and returns the three blocks (16 + 16 + 8 PCM frames) *)
Definition ex_wopts : options :=
  {| o_block_size := 16; o_max_partition_order := 5; o_max_lpc_order := None;
     o_seektable_interval := Some (Frames 1); o_metadata := [BPadding 40] |}.
Definition ex_eopts : FlacCodec.Enc.eopts :=
  {| FlacCodec.Enc.eo_max_po := 5; FlacCodec.Enc.eo_mid_side := true; FlacCodec.Enc.eo_exhaustive := true;
     FlacCodec.Enc.eo_rice2 := false |}.
Definition ex_pcm : list Z := flat_map (fun i => [Z.of_nat i * 3 - 40; 17 - Z.of_nat i * Z.of_nat i]%Z) (seq 0 40).
Definition ex_md5 (l : list N) : list N := repeat 7 16.
Example C01_end_to_end_nonvacuous :
  match sample_new Release [] ex_wopts 44100 16 2 None with
  | Ok w =>
      match sample_run (encB ex_eopts None 44100 16) ex_md5 Release w [firstn 25 ex_pcm; skipn 25 ex_pcm] with
      | Ok f =>
          match FlacCodec.Stream.dec_stream (f_stream f) with
          | Some (si, frames, e) =>
              concat frames = ex_pcm /\ map (@length Z) frames = [32; 32; 16]%nat /\ e = FlacCodec.Stream.EndEof /\
              FlacCodec.Ast.si_total si = 40 /\ FlacCodec.Ast.si_channels si = 2 /\ FlacCodec.Ast.si_bps si = 16
          | None => False
          end
      | _ => False
      end
  | _ => False
  end.
Proof. vm_compute. repeat split; reflexivity. Qed.
Print Assumptions C15_exact_fill_succeeds_sample.
Print Assumptions C15_exact_fill_succeeds_byte.
Print Assumptions C15_exact_fill_succeeds_channel.
Print Assumptions C08_no_panic_byte_debug.
Print Assumptions C08_no_panic_channel_debug.
Print Assumptions C15_length_contract_byte.
Print Assumptions C15_length_contract_channel.
Print Assumptions C08_partial_dropped_byte.
Print Assumptions C19_written_audio_size_bounded.
Print Assumptions C19_byte_written_audio_size_bounded.
Print Assumptions C19_channel_written_audio_size_bounded.
