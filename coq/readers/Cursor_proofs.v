(* readers/Cursor_proofs.v — consequences of the per-call cursor contract (Spec.cur_ok) for whole
   histories, for any item type and any data: in-order exactly-once delivery, end of stream is
   reached only when everything was delivered and is then signalled for ever, data after a seek
   starts at the target.  Inductions over the history. *)
From FlacReaders Require Import Spec Lists_proofs.
Open Scope N_scope.

Section CursorFacts.
  Context {A : Type}.
  Variable data : list A.
  Notation entry := (entry A).

  Lemma chained_app (a b : list entry) : forall p0 p,
    chained p0 (a ++ b) p <-> exists q, chained p0 a q /\ chained q b p.
  Proof.
    induction a as [|e a IH]; intros p0 p; cbn [app chained].
    - split; [intros H; exists p0; auto | intros (q & -> & H); auto].
    - rewrite IH. split.
      + intros (H0 & q & H1 & H2). exists q. auto.
      + intros (q & (H0 & H1) & H2). split; [auto | exists q; auto].
  Qed.

  Lemma delivered_app (a b : list entry) : delivered data (a ++ b) = delivered data a ++ delivered data b.
  Proof. unfold delivered. now rewrite map_app, concat_app. Qed.

  Lemma delivered_cons e (b : list entry) : delivered data (e :: b) = delivered1 data e ++ delivered data b.
  Proof. reflexivity. Qed.

  (* one non-seek call delivers exactly the items between its two positions *)
  Lemma step_segment (e : entry) :
    cur_ok data e -> is_seek e = false ->
    e_pos e <= e_pos' e /\ delivered1 data e = takeN (e_pos' e - e_pos e) (dropN (e_pos e) data).
  Proof.
    intros (Hp & Hp' & H) Hs. unfold delivered1, is_seek in *.
    destruct (e_op e) as [n| |k| |t]; destruct (e_out e) as [xs|x| |q| |]; try contradiction; try discriminate.
    - destruct H as (Hpre & _ & -> & _). split; [lia|].
      replace (e_pos e + lenN xs - e_pos e) with (lenN xs) by lia. now apply prefix_is_takeN.
    - destruct H as (_ & -> & _). split; [lia|]. now rewrite N.sub_diag, takeN_0.
    - rewrite H. split; [lia|]. f_equal. lia.
    - destruct x as [x|].
      + destruct H as (Hpre & ->). split; [lia|].
        replace (e_pos e + 1 - e_pos e) with (lenN [x]) by (cbn; lia). now apply prefix_is_takeN.
      + destruct H as (_ & ->). split; [lia|]. now rewrite N.sub_diag, takeN_0.
  Qed.

  (* a seek-free run delivers exactly the items between its first and last position *)
  Lemma run_segment (tr : list entry) : forall p0 p,
    Forall (cur_ok data) tr -> seek_free tr -> chained p0 tr p ->
    p0 <= p /\ delivered data tr = takeN (p - p0) (dropN p0 data).
  Proof.
    induction tr as [|e r IH]; intros p0 p Hok Hsf Hch; cbn [chained] in Hch.
    - subst. split; [lia|]. now rewrite N.sub_diag, takeN_0.
    - destruct Hch as (<- & Hch). inversion Hok as [|? ? Hoe Hor]; subst. inversion Hsf as [|? ? Hse Hsr]; subst.
      destruct (step_segment e Hoe Hse) as (Hle & Hd).
      destruct (IH _ _ Hor Hsr Hch) as (Hle' & Hd').
      split; [lia|]. rewrite delivered_cons, Hd, Hd'.
      assert (Hdd : dropN (e_pos' e) data = dropN (e_pos' e - e_pos e) (dropN (e_pos e) data)).
      { rewrite <- dropN_add. replace (e_pos e + (e_pos' e - e_pos e)) with (e_pos' e) by lia. reflexivity. }
      rewrite Hdd, takeN_takeN_dropN. replace (e_pos' e - e_pos e + (p - e_pos' e)) with (p - e_pos e) by lia.
      reflexivity.
  Qed.

  Lemma chained_end_le (tr : list entry) : forall p0 p,
    Forall (cur_ok data) tr -> p0 <= lenN data -> chained p0 tr p -> p <= lenN data.
  Proof.
    induction tr as [|e r IH]; intros p0 p Hok H0 Hch; cbn [chained] in Hch.
    - now subst.
    - destruct Hch as (_ & Hch). inversion Hok as [|? ? Hoe Hor]; subst.
      destruct Hoe as (_ & Hp' & _). eapply IH; [exact Hor | exact Hp' | exact Hch].
  Qed.

  (* the cursor position is the start plus the number of items delivered *)
  Lemma run_position (tr : list entry) p0 p :
    Forall (cur_ok data) tr -> seek_free tr -> p0 <= lenN data -> chained p0 tr p ->
    p = p0 + lenN (delivered data tr).
  Proof.
    intros Hok Hsf H0 Hch. destruct (run_segment tr p0 p Hok Hsf Hch) as (Hle & ->).
    pose proof (chained_end_le tr p0 p Hok H0 Hch).
    rewrite lenN_takeN, lenN_dropN. lia.
  Qed.

  Lemma shows_next (e : entry) : cur_ok data e -> prefix (shown e) (dropN (e_pos e) data).
  Proof.
    intros (_ & _ & H). unfold shown.
    destruct (e_op e) as [n| |k| |t]; destruct (e_out e) as [xs|x| |q| |]; try contradiction; try apply prefix_nil;
      try (destruct t; contradiction).
    - now destruct H.
    - now destruct H.
    - destruct x; [now destruct H | apply prefix_nil].
  Qed.

  Lemma eos_at_end (e : entry) : cur_ok data e -> eos e = true -> e_pos e = lenN data.
  Proof.
    intros (Hp & _ & H) He. unfold eos in He.
    destruct (e_op e) as [n| |k| |t]; destruct (e_out e) as [xs|x| |q| |]; try discriminate.
    - destruct xs; [|discriminate]. apply N.ltb_lt in He. destruct H as (_ & _ & _ & Hprog).
      destruct (N.lt_ge_cases (e_pos e) (lenN data)) as [Hlt|Hge]; [|lia].
      now specialize (Hprog He Hlt).
    - destruct xs; [|discriminate]. destruct H as (_ & _ & Hprog).
      destruct (N.lt_ge_cases (e_pos e) (lenN data)) as [Hlt|Hge]; [|lia].
      now specialize (Hprog Hlt).
    - destruct x; [discriminate|]. now destruct H.
  Qed.

  (* at the end nothing more is delivered and every polling call signals the end *)
  Lemma at_end_stays (tr : list entry) : forall p,
    Forall (cur_ok data) tr -> seek_free tr -> chained (lenN data) tr p ->
    p = lenN data /\ delivered data tr = [] /\ Forall (fun x => polls x = true -> eos x = true) tr.
  Proof.
    induction tr as [|e r IH]; intros p Hok Hsf Hch; cbn [chained] in Hch.
    - subst. auto.
    - destruct Hch as (He & Hch). inversion Hok as [|? ? Hoe Hor]; subst. inversion Hsf as [|? ? Hse Hsr]; subst.
      assert (Hstep : e_pos' e = lenN data /\ delivered1 data e = [] /\ (polls e = true -> eos e = true)).
      { destruct Hoe as (_ & Hp' & H). unfold delivered1, polls, eos, is_seek in *. rewrite He in H.
        rewrite (dropN_all (lenN data) data) in H by lia.
        destruct (e_op e) as [n| |k| |t]; destruct (e_out e) as [xs|x| |q| |]; try contradiction; try discriminate.
        - destruct H as (Hpre & _ & Hq & _). apply prefix_of_nil in Hpre. subst xs.
          rewrite Hq. cbn. split; [lia|auto].
        - destruct H as (Hpre & Hq & _). apply prefix_of_nil in Hpre. subst xs. rewrite Hq. auto.
        - assert (k = 0) by lia. subst k. rewrite H, He. split; [lia|]. split; [|discriminate].
          now rewrite takeN_0.
        - destruct x as [x|]; [destruct H as (Hpre & _); apply prefix_of_nil in Hpre; discriminate|].
          destruct H as (_ & ->). auto. }
      destruct Hstep as (Hp' & Hd & Hpoll). rewrite Hp' in Hch.
      destruct (IH _ Hor Hsr Hch) as (-> & Hd' & Hall).
      split; [reflexivity|]. split; [now rewrite delivered_cons, Hd, Hd'|]. constructor; auto.
  Qed.

  Lemma Forall_app_inv {B} (P : B -> Prop) (a b : list B) : Forall P (a ++ b) -> Forall P a /\ Forall P b.
  Proof. apply Forall_app. Qed.

  (* ---- C07: in order, exactly once, end of stream for ever *)
  Theorem cursor_exactly_once (tr : list entry) pend :
    Forall (cur_ok data) tr -> chained 0 tr pend -> seek_free tr ->
    forall pre e post, tr = pre ++ e :: post ->
      delivered data pre = takeN (e_pos e) data /\
      prefix (shown e) (dropN (e_pos e) data) /\
      (eos e = true ->
         delivered data pre = data /\ delivered data (e :: post) = [] /\
         Forall (fun x => polls x = true -> eos x = true) post).
  Proof.
    intros Hok Hch Hsf pre e post ->.
    apply Forall_app in Hok as (Hok1 & Hok2). apply Forall_app in Hsf as (Hsf1 & Hsf2).
    apply chained_app in Hch as (q & Hc1 & Hc2).
    assert (Hq : q = e_pos e) by (cbn [chained] in Hc2; now destruct Hc2). subst q.
    destruct (run_segment pre 0 _ Hok1 Hsf1 Hc1) as (_ & Hd). rewrite N.sub_0_r, dropN_0 in Hd.
    inversion Hok2 as [|? ? Hoe Hop]; subst.
    split; [exact Hd|]. split; [now apply shows_next|].
    intros He. pose proof (eos_at_end e Hoe He) as Hend.
    split; [rewrite Hd, Hend; now apply takeN_all|].
    destruct (at_end_stays (e :: post) pend Hok2 Hsf2) as (_ & Hnone & Hall).
    { cbn [chained]. cbn [chained] in Hc2. destruct Hc2 as (_ & Hc2). split; [exact Hend | exact Hc2]. }
    split; [exact Hnone|]. now inversion Hall.
  Qed.

  (* ---- C06: after a successful seek the data starts at the target *)
  Theorem cursor_seek_lands (tr : list entry) p0 pend :
    Forall (cur_ok data) tr -> chained p0 tr pend ->
    forall pre e post t, tr = pre ++ e :: post -> e_op e = ASeek (Some t) -> seek_free post ->
      (e_out e = AUnit \/ e_out e = APos t) /\ t <= lenN data /\
      forall a x b, post = a ++ x :: b ->
        delivered data a = takeN (lenN (delivered data a)) (dropN t data) /\
        e_pos x = t + lenN (delivered data a) /\
        prefix (shown x) (dropN (t + lenN (delivered data a)) data).
  Proof.
    intros Hok Hch pre e post t -> Hop Hsf.
    apply Forall_app in Hok as (_ & Hok2). inversion Hok2 as [|? ? Hoe Hop2]; subst.
    apply chained_app in Hch as (q & _ & Hc2). cbn [chained] in Hc2. destruct Hc2 as (_ & Hc2).
    assert (Hs : (e_out e = AUnit \/ e_out e = APos t) /\ t <= lenN data /\ e_pos' e = t).
    { destruct Hoe as (_ & _ & H). rewrite Hop in H.
      destruct (e_out e); try contradiction.
      - destruct H. auto.
      - destruct H as (-> & ? & ?). auto. }
    destruct Hs as (Hout & Ht & Hp'). rewrite Hp' in Hc2.
    split; [exact Hout|]. split; [exact Ht|].
    intros a x b ->. apply Forall_app in Hop2 as (Hoa & Hob). apply Forall_app in Hsf as (Hsa & Hsb).
    apply chained_app in Hc2 as (q' & Hca & Hcb).
    assert (q' = e_pos x) by (cbn [chained] in Hcb; now destruct Hcb). subst q'.
    destruct (run_segment a t _ Hoa Hsa Hca) as (Hle & Hd).
    pose proof (run_position a t _ Hoa Hsa Ht Hca) as Hpos.
    inversion Hob as [|? ? Hox _]; subst.
    split.
    - rewrite Hd at 1. f_equal. lia.
    - split; [exact Hpos|]. rewrite <- Hpos. now apply shows_next.
  Qed.

  (* ---- C06: a seek outside the stream fails; the cursor stays or goes to the end, and at the
     end there is no data until the next seek *)
  Theorem cursor_seek_fails (tr : list entry) p0 pend :
    Forall (cur_ok data) tr -> chained p0 tr pend ->
    forall pre e post, tr = pre ++ e :: post -> e_op e = ASeek None ->
      e_out e = AFail /\ (e_pos' e = e_pos e \/ e_pos' e = lenN data) /\
      (e_pos' e = lenN data -> seek_free post ->
         delivered data post = [] /\ Forall (fun x => polls x = true -> eos x = true) post).
  Proof.
    intros Hok Hch pre e post -> Hop.
    apply Forall_app in Hok as (_ & Hok2). inversion Hok2 as [|? ? Hoe Hop2]; subst.
    apply chained_app in Hch as (q & _ & Hc2). cbn [chained] in Hc2. destruct Hc2 as (_ & Hc2).
    destruct Hoe as (_ & _ & H). rewrite Hop in H.
    destruct (e_out e) eqn:Eo; try contradiction.
    split; [reflexivity|]. split; [exact H|].
    intros Hend Hsf. rewrite Hend in Hc2.
    destruct (at_end_stays post pend Hop2 Hsf Hc2) as (_ & ? & ?). auto.
  Qed.
End CursorFacts.
