(* E2E/ChannelSuccess.v — the FlacChannelWriter run on per-channel slices of equal length, samples in range,
   never fails under any chunking of the writes: with ChannelE2E this makes C01 for the channel front-end a
   statement whose hypotheses are on the input only. *)
From Coq Require Import List NArith ZArith Lia.
From FlacBase Require Import Res.
From FlacCodec Require Ast Stream Header Wf Enc Enc_proofs.
From FlacWriters Require Import Meta Params Params_proofs Finalize Writers Lists_proofs Writers_proofs New_proofs
     Encoder_proofs Finish_proofs Run_proofs.
From FlacWriters Require Props_C15.
From FlacE2E Require Import Bridge E2E Sample SampleE2E Success ChannelE2E.
Import Props_C15.
Import ListNotations.
Open Scope N_scope.
Local Arguments N.add : simpl never.
Local Arguments N.mul : simpl never.
Local Arguments N.div : simpl never.
Local Arguments N.modulo : simpl never.
Local Arguments N.sub : simpl never.
Local Arguments N.pow : simpl never.

Section ChannelSuccess.
Variable o : EN.eopts.
Variable L : EN.oracle.
Variable md5 : list N -> list N.
Hypothesis md5_length : forall l, length (md5 l) = 16%nat.
Variable p : profile.
Variable rate bps ch : N.
Hypothesis Hrate : rate < 2 ^ 20.
Hypothesis Hb1 : 1 <= bps.
Hypothesis Hb32 : bps <= 32.
Hypothesis Hc1 : 1 <= ch.
Hypothesis Hc8 : ch <= 8.

Let nb := bytes_per_sample_of bps.
Let n := N.to_nat ch.

(* one block of ch channels x mm samples *)
Definition blk_cond (mm : nat) (blk : block) : Prop :=
  length blk = n /\ Forall (fun c => length c = mm) blk /\ forallb (FlacCodec.Wf.fits bps) (concat blk) = true.

Lemma fill_channels_ok (blk : block) mm : length blk = n -> Forall (fun c => length c = mm) blk -> (1 <= mm)%nat ->
  fill_from_channels p ch blk = Ok blk.
Proof.
  intros Lb Fl Hm. unfold fill_from_channels.
  assert (E : (N.of_nat (length blk) =? ch) = true) by (apply N.eqb_eq; unfold n in Lb; lia).
  rewrite E. replace (match p with Debug => Ok tt | Release => Ok tt end) with (@Ok unit tt) by (destruct p; reflexivity).
  cbn [bind]. destruct blk as [|c0 r]; [cbn in Lb; unfold n in Lb; lia|].
  assert (L0 : length c0 = mm) by (apply Forall_cons_iff in Fl; tauto).
  destruct (Nat.eqb_spec (length c0) 0); [lia|].
  assert (F : forallb (fun c => (length c =? length c0)%nat) (c0 :: r) = true).
  { apply forallb_forall. intros c Hc. rewrite Forall_forall in Fl. apply Nat.eqb_eq. rewrite (Fl c Hc). lia. }
  rewrite F. reflexivity.
Qed.

Lemma chan_step_ok e0 e K (blk : block) mm :
  good e0 e K -> K < 2 ^ 36 -> blk_cond mm blk -> (1 <= mm)%nat -> N.of_nat mm <= 65535 ->
  N.of_nat mm <= si_max_bs (e_si e0) ->
  (match si_total (e_si e0) with Some t => true_samples e + N.of_nat mm <= t | None => True end) ->
  exists e', channel_encode_chunk (encB o L rate bps) p ch nb e blk = Ok e' /\
             good e0 e' (K + 1) /\ true_samples e' = true_samples e + N.of_nat mm.
Proof.
  intros G HK36 (Lb & Fl & Hfit) Hm Hmb Hmx Htot. unfold channel_encode_chunk.
  destruct (update_md5_ok rate bps ch Hrate Hb1 Hb32 Hc1 Hc8 (concat (multizip blk))) as [x Hx]. fold nb in Hx. rewrite Hx. cbn [bind].
  rewrite (fill_channels_ok blk mm Lb Fl Hm). cbn [bind].
  destruct (shaped_block_ok bps (si0 rate bps ch) ch 65535 mm blk Hc1 Hc8 Hb1 Hb32 eq_refl eq_refl eq_refl ltac:(lia) Lb Fl Hm Hmb Hfit)
    as (Hbok & Hbl).
  apply (block_step_ok o L md5 md5_length p rate bps ch Hrate Hb1 Hb32 Hc1 Hc8 e0 e K x blk mm G HK36 Hbok Lb Hbl Hm Hmb Hmx Htot).
Qed.

Lemma chan_blocks_run_ok e0 k : (1 <= k)%nat -> N.of_nat k <= 65535 -> N.of_nat k <= si_max_bs (e_si e0) -> forall blocks e K,
  good e0 e K -> K + N.of_nat (length blocks) <= 2 ^ 36 -> Forall (blk_cond k) blocks ->
  (match si_total (e_si e0) with Some t => true_samples e + N.of_nat (k * length blocks) <= t | None => True end) ->
  exists e', fold_res (channel_encode_chunk (encB o L rate bps) p ch nb) e blocks = Ok e' /\
             good e0 e' (K + N.of_nat (length blocks)) /\ true_samples e' = true_samples e + N.of_nat (k * length blocks).
Proof.
  intros Hk Hkb Hmx. induction blocks as [|b bl IH]; intros e K G HK Hall Htot.
  - exists e. cbn [fold_res length]. rewrite Nat.mul_0_r, !N.add_0_r. auto.
  - apply Forall_cons_iff in Hall. destruct Hall as [Hb Hrest]. cbn [length] in *.
    destruct (chan_step_ok e0 e K b k G ltac:(lia) Hb Hk Hkb Hmx) as (e1 & H1 & G1 & T1).
    { destruct (si_total (e_si e0)); [lia|exact I]. }
    destruct (IH e1 (K + 1) G1 ltac:(lia) Hrest) as (e2 & H2 & G2 & T2).
    { rewrite T1. destruct (si_total (e_si e0)); [lia|exact I]. }
    exists e2. cbn [fold_res]. rewrite H1. cbn [bind]. split; [exact H2|].
    split; [replace (K + N.of_nat (S (length bl))) with (K + 1 + N.of_nat (length bl)) by lia; exact G2|]. rewrite T2, T1. lia.
Qed.

Theorem channel_run_succeeds wo total w chunks :
  options_wf wo ->
  channel_new p [] wo rate bps ch total = Ok w ->
  Forall (chunk_ok n) chunks ->
  let all := cconcat n chunks in
  forallb (FlacCodec.Wf.fits bps) (concat all) = true ->
  let m := length (hd [] all) in
  (1 <= m)%nat -> N.of_nat m < 2 ^ 36 ->
  match total with Some T => T = N.of_nat m | None => True end ->
  exists f, channel_run (encB o L rate bps) md5 p w chunks = Ok f.
Proof.
  intros Hwf Hnew Hchunks all Hfits m Hm1 Hlen36 Htotal.
  pose proof (channel_new_wf p [] wo rate bps ch total w Hwf Hnew) as Hcw.
  pose proof Hwf as ((Hbs16 & Hbs64k) & _).
  unfold channel_new in Hnew. apply bind_ok in Hnew. destruct Hnew as (bps' & Hbps' & Hnew).
  apply bind_ok in Hnew. destruct Hnew as (t & Ht & Hnew). apply bind_ok in Hnew. destruct Hnew as (e0 & He0 & Hnew).
  injection Hnew as <-.
  assert (Eb : bps' = bps).
  { unfold signed_bit_count_32 in Hbps'. destruct (_ && _); [injection Hbps' as <-; reflexivity|discriminate]. }
  subst bps'. fold nb in Hcw |- *. fold n in Hcw |- *.
  set (bs := o_block_size wo) in *.
  assert (Et : t = match total with Some _ => Some (N.of_nat m) | None => None end /\ match t with Some q => 1 <= q | None => True end).
  { unfold channel_total in Ht. destruct total as [T|]; [|injection Ht as <-; split; [reflexivity|exact I]].
    destruct (N.eqb_spec T 0); [discriminate|]. injection Ht as <-. rewrite Htotal. split; [reflexivity|lia]. }
  destruct Et as [Et Ht1].
  destruct (encoder_new_inv0 p [] wo rate bps ch t e0 Hwf ltac:(lia) Ht1 He0) as (I0 & S0 & Fi0 & _).
  destruct (encoder_new_fresh p rate bps wo ch t e0 He0) as (_ & F0 & _ & _ & _ & _ & Sc & Mx & _ & St).
  assert (G0 : good e0 e0 0).
  { unfold good. split; [exact I0|]. split; [exact S0|]. split; [unfold frames_nonempty; rewrite Fi0; constructor|].
    split; [apply static_eq_refl|]. rewrite F0. unfold true_samples, true_bytes. rewrite Fi0. cbn. repeat split; lia. }
  assert (T0 : true_samples e0 = 0) by (unfold true_samples; rewrite Fi0; reflexivity).
  assert (Ecw : cw_chan {| cw_enc := e0; cw_bufs := repeat [] n; cw_channels := ch; cw_frame_sample_size := bs;
                           cw_bytes_per_sample := nb |} = n) by (unfold cw_chan; cbn; rewrite Sc; reflexivity).
  rewrite (channel_chunking (encB o L rate bps) md5 p _ chunks Hcw) by (rewrite Ecw; exact Hchunks).
  rewrite Ecw. fold all.
  destruct (cconcat_ok n chunks Hchunks) as [Lall [m' Uall]]. fold all in Lall, Uall.
  (* one write of everything, then finalize *)
  unfold channel_run. cbn [fold_res bind].
  unfold channel_write. cbn [cw_enc cw_bufs cw_channels cw_frame_sample_size cw_bytes_per_sample].
  destruct all as [|first rest0] eqn:Eall; [cbn in Lall; unfold n in Lall; lia|]. rewrite <- Eall in *.
  assert (Em : m' = m).
  { unfold m. try rewrite Eall. rewrite Eall in Uall. cbn [hd]. apply Forall_cons_iff in Uall. destruct Uall as [A _]. lia. }
  subst m'.
  rewrite Lall, Sc. unfold n at 1. rewrite N2Nat.id, N.eqb_refl.
  assert (Hex : existsb (fun c : list Z => negb (length c =? length first)%nat) rest0 = false).
  { rewrite Eall in Uall. apply Forall_cons_iff in Uall. destruct Uall as [A B].
    destruct (existsb _ rest0) eqn:Ex; [|reflexivity]. apply existsb_exists in Ex. destruct Ex as (c & Hc & Hl).
    rewrite Forall_forall in B. rewrite (B c Hc), A, Nat.eqb_refl in Hl. discriminate. }
  rewrite Hex. rewrite (zip_app_nil_l all n Lall).
  destruct (N.eqb_spec bs 0) as [|Hk0]; [lia|].
  set (k := N.to_nat bs) in *. assert (Hk : (0 < k)%nat) by (unfold k; lia).
  destruct (cdrain k all) as [blocks rest] eqn:Ed.
  assert (Hne : all <> []) by (rewrite Eall; discriminate).
  destruct (cdrain_spec k Hk all blocks rest Hne Ed) as (Est & Fsh & Lrest & Hshort). rewrite Lall in Fsh, Lrest.
  pose proof (shaped_len _ _ _ Fsh) as Fbl.
  assert (Hrest_u : exists r, Forall (fun c => length c = r) rest /\ (r < k)%nat /\ m = (k * length blocks + r)%nat).
  { assert (G : forall bl rs mm, Forall (shaped k n) bl -> length rs = n -> Forall (fun c => length c = mm) (stack bl rs) ->
              Forall (fun c => length c = (mm - k * length bl)%nat) rs /\ (k * length bl <= mm \/ n = 0)%nat).
    { clear. induction bl as [|b bl IH]; intros rs mm F Lr U; cbn [stack fold_right length] in *.
      - rewrite Nat.mul_0_r, Nat.sub_0_r. split; [exact U|lia].
      - fold (stack bl rs) in U. apply Forall_cons_iff in F. destruct F as [[Lb Fb] F].
        assert (Ls : length (stack bl rs) = n) by (apply stack_length; [eapply shaped_len; eauto|exact Lr]).
        destruct (zip_app_uniform b (stack bl rs) k mm ltac:(lia) Fb U) as [U' Hle0].
        assert (Hle : (k <= mm \/ n = 0)%nat) by lia.
        destruct (IH rs (mm - k)%nat F Lr U') as [A B].
        split; [|lia]. eapply Forall_impl; [|exact A]. intros c Hc. rewrite Hc. lia. }
    rewrite Est in Uall. destruct (G blocks rest m Fsh Lrest Uall) as [A B].
    exists (m - k * length blocks)%nat. split; [exact A|].
    assert (Hn1 : (1 <= n)%nat) by (unfold n; lia).
    assert (Hlt : (m - k * length blocks < k)%nat).
    { unfold has_short in Hshort. apply existsb_exists in Hshort. destruct Hshort as (c & Hc & Hl). apply Nat.ltb_lt in Hl.
      rewrite Forall_forall in A. rewrite (A c Hc) in Hl. exact Hl. }
    split; [exact Hlt|]. destruct B as [B|B]; [|lia]. rewrite Nat.add_comm, Nat.sub_add; [reflexivity|exact B]. }
  destruct Hrest_u as (r & Urest & Hrk & Hm).
  (* every sample of every block is a sample of the input *)
  assert (Hin : forall b, In b blocks \/ b = rest -> forallb (FlacCodec.Wf.fits bps) (concat b) = true).
  { intros b Hb. apply forallb_forall. intros z Hz. rewrite forallb_forall in Hfits. apply Hfits.
    rewrite Est. apply (in_stack z n blocks rest Fbl Lrest). destruct Hb as [Hb| ->]; [left; eauto|right; exact Hz]. }
  assert (Hblocks : Forall (blk_cond k) blocks).
  { apply Forall_forall. intros b Hb. rewrite Forall_forall in Fsh. destruct (Fsh b Hb) as [Lb Fb']. split; [exact Lb|]. split; [exact Fb'|]. apply Hin. left. exact Hb. }
  assert (Hcount : N.of_nat (length blocks) + 1 <= 2 ^ 36) by nia.
  assert (Hmxk : N.of_nat k <= si_max_bs (e_si e0)) by (rewrite Mx; unfold k; lia).
  destruct (chan_blocks_run_ok e0 k ltac:(lia) ltac:(unfold k; lia) Hmxk blocks e0 0 G0 ltac:(lia) Hblocks) as (e1 & H1 & G1 & T1).
  { rewrite St, Et, T0. destruct total; cbv iota; [lia|exact I]. }
  rewrite H1. cbn [bind].
  unfold channel_finalize. cbn [cw_bufs cw_channels cw_bytes_per_sample cw_enc].
  destruct rest as [|c0 rest'] eqn:Erest; [cbn in Lrest; unfold n in Lrest; lia|]. rewrite <- Erest in *.
  assert (Lc0 : length c0 = r) by (rewrite Erest in Urest; apply Forall_cons_iff in Urest; tauto).
  rewrite Lc0.
  assert (Hlast : exists e2, (if negb (r =? 0)%nat then channel_encode_chunk (encB o L rate bps) p ch nb e1 rest else Ok e1) = Ok e2 /\
                  (exists K2, good e0 e2 K2) /\ true_samples e2 = N.of_nat m).
  { destruct (Nat.eqb_spec r 0) as [E0|Hr0]; cbn [negb].
    - exists e1. split; [reflexivity|]. split; [eauto|]. rewrite T1, T0, Hm, E0. lia.
    - destruct (chan_step_ok e0 e1 _ rest r G1 ltac:(lia)) as (e2 & H2 & G2 & T2).
      { split; [exact Lrest|]. split; [exact Urest|]. apply Hin. right. reflexivity. }
      { lia. } { unfold k in Hrk. lia. } { unfold k in Hrk, Hmxk. lia. }
      { rewrite St, Et, T1, T0. destruct total; cbv iota; [lia|exact I]. }
      exists e2. split; [exact H2|]. split; [eauto|]. rewrite T2, T1, T0, Hm. lia. }
  destruct Hlast as (e2 & H2 & (K2 & G2) & T2). rewrite H2. cbn [bind].
  destruct G2 as (I2 & S2 & Fn2 & Se2 & _).
  pose proof (C15_finalize_contract md5 p e2 md5_length I2 S2 Fn2) as Hfc.
  assert (Ew2 : e_samples_written e2 = N.of_nat m) by (destruct I2; congruence).
  assert (Et2 : si_total (e_si e2) = t) by (destruct Se2 as (_ & _ & _ & _ & _ & _ & _ & _ & _ & T); congruence).
  rewrite Et2, Et, Ew2 in Hfc.
  assert (Hok : is_ok (encoder_finalize md5 p e2) = true).
  { destruct total.
    - rewrite N.eqb_refl in Hfc. exact Hfc.
    - assert (HW : N.of_nat m < MAX_SAMPLES) by (unfold MAX_SAMPLES; change (2 ^ 36) with 68719476736 in Hlen36; lia).
      destruct (N.leb_spec 1 (N.of_nat m)); [|lia]. destruct (N.ltb_spec (N.of_nat m) MAX_SAMPLES); [|lia]. exact Hfc. }
  destruct (encoder_finalize md5 p e2) as [f| |]; try discriminate. eauto.
Qed.

End ChannelSuccess.

(* success and round trip together, hypotheses on the input only *)
Theorem channel_writer_lossless : forall o L md5, (forall l, length (md5 l) = 16%nat) ->
  forall p rate bps wo ch total w chunks,
  options_wf wo ->
  channel_new p [] wo rate bps ch total = Ok w ->
  Forall (chunk_ok (N.to_nat ch)) chunks ->
  let all := cconcat (N.to_nat ch) chunks in
  forallb (FlacCodec.Wf.fits bps) (concat all) = true ->
  let m := length (hd [] all) in
  (1 <= m)%nat -> N.of_nat m < 2 ^ 36 ->
  match total with Some T => T = N.of_nat m | None => True end ->
  exists f blocks,
    channel_run (encB o L rate bps) md5 p w chunks = Ok f /\
    FlacCodec.Stream.dec_stream (f_stream f) =
      Some (conv_si (f_si f), map FlacCodec.Stream.interleave_frame blocks, FlacCodec.Stream.EndEof) /\
    stack blocks (repeat [] (N.to_nat ch)) = all.
Proof.
  intros o L md5 Hmd p rate bps wo ch total w chunks Hwf Hnew Hchunks all Hfit m Hm Hlen Htot.
  assert (Hr : rate < 2 ^ 20 /\ 1 <= bps /\ bps <= 32 /\ 1 <= ch /\ ch <= 8).
  { pose proof Hnew as H. unfold channel_new in H. apply bind_ok in H. destruct H as (bps' & Hb & H).
    apply bind_ok in H. destruct H as (t & _ & H). apply bind_ok in H. destruct H as (e0 & He0 & _).
    unfold signed_bit_count_32 in Hb. destruct ((1 <=? bps) && (bps <=? 32)) eqn:Eb; [|discriminate].
    apply andb_prop in Eb. destruct Eb as [B1 B2]. apply N.leb_le in B1, B2. injection Hb as <-.
    unfold encoder_new in He0. apply bind_ok in He0. destruct He0 as ([] & Hv & _). unfold encoder_new_validate in Hv.
    destruct (N.ltb_spec rate 1048576); [|discriminate]. destruct ((1 <=? ch) && (ch <=? 8)) eqn:Ec; [|discriminate].
    apply andb_prop in Ec. destruct Ec as [C1 C2]. apply N.leb_le in C1, C2. change (2 ^ 20) with 1048576. auto. }
  destruct Hr as (R & B1 & B2 & C1 & C2).
  destruct (channel_run_succeeds o L md5 Hmd p rate bps ch R B1 B2 C1 C2 wo total w chunks Hwf Hnew Hchunks Hfit Hm Hlen Htot) as [f Hf].
  destruct (e2e_channel_pcm o L md5 Hmd p rate bps wo ch total w chunks f Hwf Hnew Hchunks Hf Hfit Hlen) as (blocks & Hd & Hc & _).
  exists f, blocks. auto.
Qed.

(* C02 for the channel front-end, hypotheses on the input only: the finished file passes the strict stream validator *)
Theorem channel_writer_file_valid : forall o L md5, (forall l, length (md5 l) = 16%nat) ->
  forall p rate bps wo ch total w chunks,
  options_wf wo ->
  channel_new p [] wo rate bps ch total = Ok w ->
  Forall (chunk_ok (N.to_nat ch)) chunks ->
  let all := cconcat (N.to_nat ch) chunks in
  forallb (FlacCodec.Wf.fits bps) (concat all) = true ->
  let m := length (hd [] all) in
  (1 <= m)%nat -> N.of_nat m < 2 ^ 36 ->
  match total with Some T => T = N.of_nat m | None => True end ->
  exists f blocks,
    channel_run (encB o L rate bps) md5 p w chunks = Ok f /\
    FlacCodec.Spec.spec_stream (f_stream f) = Ok (conv_si (f_si f), blocks) /\
    stack blocks (repeat [] (N.to_nat ch)) = all.
Proof.
  intros o L md5 Hmd p rate bps wo ch total w chunks Hwf Hnew Hchunks all Hfit m Hm Hlen Htot.
  destruct (channel_writer_lossless o L md5 Hmd p rate bps wo ch total w chunks Hwf Hnew Hchunks Hfit Hm Hlen Htot) as (f & _ & Hrun & _ & _).
  destruct (e2e_channel_pcm o L md5 Hmd p rate bps wo ch total w chunks f Hwf Hnew Hchunks Hrun Hfit Hlen)
    as (blocks & _ & Hst & _ & _ & _ & _ & _ & Hspec).
  exists f, blocks. auto.
Qed.
