(* updateio/Par.v — fork–join programs over disjoint components (property C18, partial).  Definitions only.

   The state is a product of components indexed by nat; task k is a deterministic sequence of steps on
   component k and touches nothing else (this is what `&mut` disjointness + `Send` + forbid(unsafe_code)
   give the Rust closures; it is an assumption of the model, not a theorem about the Rust).
   An interleaving is a list of task indices: at each entry that task performs its next step.
   src/encode.rs:3966-4012: join (rayon::join or `(oper_a(), oper_b())`), try_join, vec_map. *)
From FlacBase Require Import Res Bits.
Open Scope N_scope.

Section Par.
  Variable C : Type.
  Definition step := C -> C.
  Definition apply_all (fs : list step) (c : C) : C := fold_left (fun c f => f c) fs c.
  Definition override {A} (g : nat -> A) (k : nat) (v : A) : nat -> A := fun j => if Nat.eqb j k then v else g j.

  (* run an interleaving: rem k = steps task k still has to do; st k = component k *)
  Fixpoint exec (sched : list nat) (rem : nat -> list step) (st : nat -> C) : (nat -> list step) * (nat -> C) :=
    match sched with
    | [] => (rem, st)
    | k :: r => match rem k with
                | [] => exec r rem st                       (* task k already finished: nothing happens *)
                | f :: fs => exec r (override rem k fs) (override st k (f (st k)))
                end
    end.
  (* the join point: every task has finished *)
  Definition complete (sched : list nat) (rem : nat -> list step) (st : nat -> C) : Prop :=
    forall k, fst (exec sched rem st) k = [].
  (* what the serial code computes: each task in turn, on its own component *)
  Definition seq_result (rem : nat -> list step) (st : nat -> C) : nat -> C := fun k => apply_all (rem k) (st k).
  (* ---- join(oper_a, oper_b): two tasks, the pair of their components is the result *)
  Definition tasks2 (a b : list step) : nat -> list step := fun k => match k with O => a | S O => b | _ => [] end.
  Definition st2 (ca cb : C) : nat -> C := fun k => match k with O => ca | _ => cb end.
  Definition join_par (a b : list step) (sched : list nat) (ca cb : C) : C * C :=
    let st' := snd (exec sched (tasks2 a b) (st2 ca cb)) in (st' 0%nat, st' 1%nat).
  Definition join_seq (a b : list step) (ca cb : C) : C * C := (apply_all a ca, apply_all b cb).

  (* ---- vec_map(src, f): task k computes on element k; results collected in index order *)
  Definition tasksn (fs : list (list step)) : nat -> list step := fun k => nth k fs [].
  Definition stn (d : C) (cs : list C) : nat -> C := fun k => nth k cs d.
  Definition vec_map_par (fs : list (list step)) (sched : list nat) (d : C) (cs : list C) : list C :=
    map (snd (exec sched (tasksn fs) (stn d cs))) (seq 0 (length cs)).
  Definition vec_map_seq (fs : list (list step)) (d : C) (cs : list C) : list C :=
    map (fun k => apply_all (nth k fs []) (nth k cs d)) (seq 0 (length cs)).
End Par.

(* ---- try_join: run both (join), then `Ok((a?, b?))`: the left error wins, in the serial code as well *)
Definition try_pair {A B} (x : res A) (y : res B) : res (A * B) :=
  match x with
  | Ok a => match y with Ok b => Ok (a, b) | Err e => Err e | Panic k => Panic k end
  | Err e => Err e
  | Panic k => Panic k
  end.
Definition try_join_par {C A B} (ra : C -> res A) (rb : C -> res B) (a b : list (step C)) (sched : list nat) (ca cb : C) : res (A * B) :=
  let '(x, y) := join_par C a b sched ca cb in try_pair (ra x) (rb y).
Definition try_join_seq {C A B} (ra : C -> res A) (rb : C -> res B) (a b : list (step C)) (ca cb : C) : res (A * B) :=
  let '(x, y) := join_seq C a b ca cb in try_pair (ra x) (rb y).

(* ---- Iterator::min_by_key: the FIRST minimum *)
Fixpoint min_by_key_first {A} (key : A -> N) (best : A) (l : list A) : A :=
  match l with
  | [] => best
  | x :: r => if key x <? key best then min_by_key_first key x r else min_by_key_first key best r
  end.

(* ---- the task structure of the encoder (src/encode.rs:2360-2365, 2395-2406, 2692-2788, 2908-2947).
   A component is a cache together with the recorder it fills; `written` is the size of the recording. *)
Section Encode.
  Variable cache : Type.
  Variable written : cache -> N.
  Variable enc_fixed enc_lpc : list (step cache).     (* encode_fixed_subframe / encode_lpc_subframe on their own caches *)
  (* encode_subframe :2908 — join of the two candidates, then min_by_key(|c| c.written()) *)
  Definition encode_subframe_par (sched : list nat) (cf cl : cache) : cache * cache * cache :=
    let '(f, l) := join_par cache enc_fixed enc_lpc sched cf cl in (f, l, min_by_key_first written f [l]).
  Definition encode_subframe_seq (cf cl : cache) : cache * cache * cache :=
    let '(f, l) := join_seq cache enc_fixed enc_lpc cf cl in (f, l, min_by_key_first written f [l]).

  (* encode_frame :2395 — vec_map over the channels (each channel task is a whole encode_subframe on the
     channel's own cache); correlate_channels_exhaustive :2692/:2719 — try_join of two such tasks, twice,
     then min_by_key over the four sums.  A channel component is the pair of its two candidate caches. *)
  Definition chan := (cache * cache * option cache)%type.
  Definition chan_step (scheds : chan -> list nat) : step chan :=
    fun c => let '(cf, cl, _) := c in
             let '(f, l, best) := encode_subframe_par (scheds c) cf cl in (f, l, Some best).
  Definition chan_step_seq : step chan :=
    fun c => let '(cf, cl, _) := c in
             let '(f, l, best) := encode_subframe_seq cf cl in (f, l, Some best).
  Definition encode_channels_par (inner : chan -> list nat) (outer : list nat) (d : chan) (cs : list chan) : list chan :=
    vec_map_par chan (map (fun _ => [chan_step inner]) cs) outer d cs.
  Definition encode_channels_seq (d : chan) (cs : list chan) : list chan :=
    vec_map_seq chan (map (fun _ => [chan_step_seq]) cs) d cs.
End Encode.

(* correlate_channels_exhaustive :2692-2788 — try_join(left, right), then try_join(average, difference),
   then min_by_key over the four pair sums (first minimum).  `size c` = Ok(written bits) or the task's error. *)
Section Correlate.
  Variable cache : Type.
  Variable size : cache -> res N.
  Variable enc_l enc_r enc_a enc_d : list (step cache).
  Definition pick4 (l r a d : N) : N * N :=     (* (index of the chosen assignment, its total) *)
    min_by_key_first snd (0, l + r) [(1, l + d); (2, d + r); (3, a + d)].
  Definition correlate_par (s1 s2 : list nat) (cl cr ca cd : cache) : res (N * N) :=
    '(l, r) <- try_join_par size size enc_l enc_r s1 cl cr ;;
    '(a, d) <- try_join_par size size enc_a enc_d s2 ca cd ;;
    Ok (pick4 l r a d).
  Definition correlate_seq (cl cr ca cd : cache) : res (N * N) :=
    '(l, r) <- try_join_seq size size enc_l enc_r cl cr ;;
    '(a, d) <- try_join_seq size size enc_a enc_d ca cd ;;
    Ok (pick4 l r a d).
End Correlate.
