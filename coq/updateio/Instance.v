(* updateio/Instance.v — a concrete block codec with the real container layout (tag, 4-byte headers with
   last flag / type / 24-bit size, opaque bodies, zero-filled PADDING) that satisfies the two hypotheses of
   the C10 theorems.  This shows the hypotheses are consistent and lets whole files be run through
   update_file inside Coq.  The real codec's bodies are C11's business. *)
From FlacBase Require Import Res Bits.
From FlacUpdIo Require Import GenUpd Update Update_proofs.
Open Scope N_scope.

Definition ipayload := list N.
Definition i_psize (p : ipayload) : N := lenN p.
Definition i_ser (p : ipayload) : list N := p.
Definition i_uclass (k : okind) (p : ipayload) : option N :=
  match k with
  | KSeekTable => Some 0
  | KVorbisComment => Some 1
  | KPicture => match p with 1 :: _ => Some 2 | 2 :: _ => Some 3 | _ => None end
  | _ => None
  end.

(* Some None = PADDING *)
Definition kind_of (ty : N) : option (option okind) :=
  if ty =? TY_PADDING then Some None
  else if ty =? TY_APPLICATION then Some (Some KApplication)
  else if ty =? TY_SEEKTABLE then Some (Some KSeekTable)
  else if ty =? TY_VORBISCOMMENT then Some (Some KVorbisComment)
  else if ty =? TY_CUESHEET then Some (Some KCuesheet)
  else if ty =? TY_PICTURE then Some (Some KPicture)
  else None.

Definition hdr_last (b0 : N) : bool := 128 <=? b0.
Definition hdr_type (b0 : N) : N := if 128 <=? b0 then b0 - 128 else b0.
Definition hdr_size (b1 b2 b3 : N) : N := b1 * 65536 + b2 * 256 + b3.

Fixpoint list_eqb (a b : list N) : bool :=
  match a, b with
  | [], [] => true
  | x :: a', y :: b' => (x =? y) && list_eqb a' b'
  | _, _ => false
  end.

Fixpoint read_opt (fuel : nat) (s : list N) : res (list (oblock ipayload) * list N) :=
  match fuel with
  | O => Err EOther
  | S f =>
      match s with
      | b0 :: b1 :: b2 :: b3 :: r =>
          let size := hdr_size b1 b2 b3 in
          if lenN r <? size then Err EEof
          else
            let body := firstn (N.to_nat size) r in
            let r' := skipn (N.to_nat size) r in
            match kind_of (hdr_type b0) with
            | None => Err EOther
            | Some ko =>
                let blk := match ko with None => OPadding size | Some k => OOther k body end in
                if hdr_last b0 then Ok ([blk], r')
                else '(bs, r'') <- read_opt f r' ;; Ok (blk :: bs, r'')
            end
      | _ => Err EEof
      end
  end.

Definition i_read (s : list N) : res (blocklist ipayload * list N) :=
  match s with
  | t0 :: t1 :: t2 :: t3 :: b0 :: b1 :: b2 :: b3 :: r =>
      if negb (list_eqb [t0; t1; t2; t3] FLAC_TAG) then Err EOther
      else if negb (hdr_type b0 =? TY_STREAMINFO) then Err EOther
      else
        let size := hdr_size b1 b2 b3 in
        if lenN r <? size then Err EEof
        else
          let si := firstn (N.to_nat size) r in
          let r' := skipn (N.to_nat size) r in
          if hdr_last b0 then Ok ({| bl_si := si; bl_blocks := [] |}, r')
          else '(bs, r'') <- read_opt (length r') r' ;; Ok ({| bl_si := si; bl_blocks := bs |}, r'')
  | _ => Err EEof
  end.

(* the whole-file functions over this codec *)
Definition i_write_blocks := write_blocks ipayload i_psize i_ser i_uclass.
Definition i_update_file := update_file ipayload i_psize i_ser i_uclass i_read.
Definition i_update := update ipayload i_psize i_ser i_uclass i_read.
Definition i_run_edits := run_edits ipayload i_psize i_ser i_uclass i_read.
