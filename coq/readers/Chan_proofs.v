(* readers/Chan_proofs.v — FlacChannelReader (repaired revision): invariant and, for every channel
   c, refinement of the abstract cursor over that channel's samples; all slices of one fill_buf
   have the same length (chan_shape). *)
From FlacReaders Require Import Spec Lists_proofs Frame_proofs Core_proofs.
Open Scope N_scope.

Lemma nth_repeat_nil_gen k n : nth k (repeatN (@nil Z) n) [] = [].
Proof. unfold repeatN. generalize (N.to_nat n). induction k as [|k IH]; intros [|m]; cbn; auto. Qed.

(* The repaired error path: when fill_buf reports an error, whatever the failed decode left in the
   decoder's frame buffer is marked consumed, so no later call hands it out (any file, any state). *)
Lemma chan_fill_error_hides F r e :
  f_rev F = Repaired -> snd (chan_fill_buf F r) = OErr e ->
  pcm_frames (d_buf (cr_dec (fst (chan_fill_buf F r)))) <= cr_consumed (fst (chan_fill_buf F r)).
Proof.
  intros Hrev. unfold chan_fill_buf. rewrite Hrev.
  destruct (cr_consumed r <? pcm_frames (d_buf (cr_dec r))).
  - unfold channels. destruct (pcm_frames (d_buf (cr_dec r)) =? 0); cbn; discriminate.
  - destruct (read_frame F (cr_dec r)) as [d' [[f|]|e'|k]]; cbn [fst snd cr_dec cr_consumed].
    + unfold channels. destruct (pcm_frames f =? 0); cbn; discriminate.
    + discriminate.
    + intros _. lia.
    + discriminate.
Qed.

Section Chan.
  Variable F : file.
  Hypothesis V : valid_file F.
  Notation nch := (f_channels F).
  Variable c : nat.
  Hypothesis Hc : (c < N.to_nat nch)%nat.
  Notation data := (chan_pcm F c).

  (* the decoder's frame buffer is the last decoded frame while part of it is unconsumed *)
  Definition CInv (r : chan_reader) : Prop :=
    exists pre, f_slots F = pre ++ d_rest (cr_dec r) /\ d_cur (cr_dec r) = sumlen pre /\
      cr_consumed r <= pcm_frames (d_buf (cr_dec r)) /\
      (d_buf (cr_dec r) = [] \/
       (wf_frame nch (d_buf (cr_dec r)) /\ pcm_frames (d_buf (cr_dec r)) <= total_frames F)) /\
      (cr_consumed r < pcm_frames (d_buf (cr_dec r)) ->
         exists pre', pre = pre' ++ [SFrame (d_buf (cr_dec r))]).

  Lemma cinv_new : CInv (chan_new F).
  Proof. exists []. cbn. repeat split; auto; lia. Qed.

  Lemma cdata_total_len : lenN data = total_frames F.
  Proof. apply (cdata_len nch); [apply (v_good F V) | exact Hc]. Qed.

  Lemma nth_buf_len g : g = [] \/ wf_frame nch g -> lenN (nth c g []) = pcm_frames g.
  Proof.
    intros [->|Hg]; [destruct c; reflexivity|]. now apply (nth_chan_len nch).
  Qed.

  Lemma cinv_facts r : CInv r ->
    cpos r <= lenN data /\
    dropN (cpos r) data =
      dropN (cr_consumed r) (nth c (d_buf (cr_dec r)) []) ++ cdata c (d_rest (cr_dec r)) /\
    lenN (dropN (cr_consumed r) (nth c (d_buf (cr_dec r)) [])) = pcm_frames (d_buf (cr_dec r)) - cr_consumed r /\
    (pcm_frames (d_buf (cr_dec r)) <= cr_consumed r -> cpos r = d_cur (cr_dec r)) /\
    pcm_frames (d_buf (cr_dec r)) - cr_consumed r <= d_cur (cr_dec r).
  Proof.
    intros (pre & E & Ec & Hcl & Hg & Hpre).
    assert (Hgl : lenN (nth c (d_buf (cr_dec r)) []) = pcm_frames (d_buf (cr_dec r))).
    { apply nth_buf_len. destruct Hg as [?|(? & _)]; auto. }
    pose proof cdata_total_len as Hlen. pose proof (split_total F _ _ E) as Ht.
    destruct (split_good F V _ _ E) as (Gpre & Grest).
    destruct (N.lt_ge_cases (cr_consumed r) (pcm_frames (d_buf (cr_dec r)))) as [Hlt|Hge].
    - destruct (Hpre Hlt) as (pre' & ->). apply Forall_app in Gpre as (Gpre' & _).
      rewrite sumlen_app in Ec, Ht. cbn [sumlen slot_frame] in Ec, Ht.
      assert (Hp : cpos r = sumlen pre' + cr_consumed r) by (unfold cpos; lia).
      rewrite Hp. split; [lia|]. split.
      + unfold chan_pcm. rewrite E, <- app_assoc, cdata_app, dropN_add.
        rewrite <- (cdata_len nch c pre' Gpre' Hc) at 1. rewrite dropN_app_len.
        cbn [app]. rewrite cdata_cons. apply dropN_app_le. lia.
      + split; [rewrite lenN_dropN; lia|]. split; lia.
    - assert (Hp : cpos r = d_cur (cr_dec r)) by (unfold cpos; lia).
      rewrite Hp, Ec. split; [lia|]. split.
      + rewrite (dropN_all (cr_consumed r)) by lia. cbn [app].
        unfold chan_pcm. rewrite E, cdata_app. rewrite <- (cdata_len nch c pre Gpre Hc) at 1.
        apply dropN_app_len.
      + split; [rewrite lenN_dropN; lia|]. split; [auto|lia].
  Qed.

  Lemma cpos_le r : CInv r -> cpos r <= lenN data.
  Proof. intros I. now destruct (cinv_facts r I). Qed.

  Lemma nth_map_dropN k (cs : list (list Z)) : nth c (map (dropN k) cs) [] = dropN k (nth c cs []).
  Proof. rewrite <- (dropN_nil k) at 1. apply map_nth. Qed.

  Lemma nth_repeat_nil n : nth c (repeatN (@nil Z) n) [] = [].
  Proof. apply nth_repeat_nil_gen. Qed.

  (* ---- fill_buf *)
  Lemma chan_fill_ok r : CInv r ->
    CInv (fst (chan_fill_buf F r)) /\ cur_ok data (abs_c F c (r, CFill, snd (chan_fill_buf F r))) /\
    chan_shape F (r, CFill, snd (chan_fill_buf F r)) /\
    (* what the skip loops need *)
    (pcm_frames (d_buf (cr_dec r)) <= cr_consumed r ->
       (d_rest (cr_dec r) = [] /\ fst (chan_fill_buf F r) = r /\
        snd (chan_fill_buf F r) = OChans (repeatN [] nch)) \/
       (exists f rest, d_rest (cr_dec r) = SFrame f :: rest /\ wf_frame nch f /\
          snd (chan_fill_buf F r) = OChans f /\ d_rest (cr_dec (fst (chan_fill_buf F r))) = rest /\
          d_buf (cr_dec (fst (chan_fill_buf F r))) = f /\ cr_consumed (fst (chan_fill_buf F r)) = 0)).
  Proof.
    intros I. destruct (cinv_facts r I) as (Hle & Hdrop & Hvl & Hend & _).
    unfold cur_ok, abs_c, chan_shape. cbn [e_pos e_op e_out e_pos' chan_step snd].
    unfold chan_fill_buf. destruct (N.ltb_spec (cr_consumed r) (pcm_frames (d_buf (cr_dec r)))) as [Hlt|Hge].
    - (* part of the decoded frame is left *)
      unfold channels. destruct (N.eqb_spec (pcm_frames (d_buf (cr_dec r))) 0) as [|_]; [lia|].
      cbn [fst snd abs_out_data chan_of]. split; [exact I|]. split; [|split; [|intros; lia]].
      + split; [exact Hle|]. split; [exact Hle|]. rewrite nth_map_dropN.
        split; [rewrite Hdrop; apply prefix_app|]. split; [reflexivity|].
        intros _ E. rewrite E in Hvl. cbn in Hvl. lia.
      + destruct I as (pre & _ & _ & _ & Hg & _). destruct Hg as [Eg|((Hn & _ & Hall) & _)].
        * rewrite Eg in Hlt. cbn in Hlt. lia.
        * rewrite lenN_map. split; [exact Hn|]. exists (pcm_frames (d_buf (cr_dec r)) - cr_consumed r).
          rewrite Forall_map. eapply Forall_impl; [|exact Hall]. cbn. intros ch Hch.
          rewrite lenN_dropN. lia.
    - (* the buffer is used up: decode the next frame *)
      rewrite (v_rev F V). specialize (Hend Hge).
      destruct I as (pre & E & Ec & Hcl & Hg & Hpre).
      destruct (d_rest (cr_dec r)) as [|s rest] eqn:Er.
      + rewrite (read_frame_none F V _ pre E Er Ec). cbn [fst snd abs_out_data chan_of].
        assert (Hr : {| cr_dec := cr_dec r; cr_consumed := cr_consumed r |} = r) by (destruct r; reflexivity).
        rewrite Hr. split; [exists pre; rewrite Er; auto|].
        rewrite nth_repeat_nil. split; [|split].
        * split; [exact Hle|]. split; [exact Hle|]. split; [apply prefix_nil|]. split; [reflexivity|].
          intros Hlt. rewrite Hend, Ec in Hlt. rewrite cdata_total_len, (split_total F _ _ E) in Hlt.
          cbn in Hlt. lia.
        * rewrite lenN_repeatN. split; [reflexivity|]. exists 0. unfold repeatN. apply Forall_forall.
          intros x Hx. apply repeat_spec in Hx. now subst.
        * intros _. left. auto.
      + destruct (read_frame_some F V _ pre s rest E Er Ec) as (f & -> & Hf & ->).
        rewrite (channels_ok nch f Hf). cbn [fst snd abs_out_data chan_of cr_dec cr_consumed d_rest d_buf d_cur].
        assert (Hft : pcm_frames f <= total_frames F).
        { rewrite (split_total F _ _ E), sumlen_cons. lia. }
        assert (I1 : CInv {| cr_dec := {| d_rest := rest; d_cur := sumlen pre + pcm_frames f; d_buf := f |};
                             cr_consumed := 0 |}).
        { exists (pre ++ [SFrame f]). cbn [cr_dec cr_consumed d_rest d_cur d_buf].
          split; [now rewrite <- app_assoc|]. split; [rewrite sumlen_app; cbn [sumlen slot_frame]; lia|].
          split; [lia|]. split; [right; auto|]. intros _. now exists pre. }
        split; [exact I1|]. split; [|split].
        * split; [exact Hle|]. split; [now apply cpos_le|].
          assert (Hp1 : cpos {| cr_dec := {| d_rest := rest; d_cur := sumlen pre + pcm_frames f; d_buf := f |};
                                cr_consumed := 0 |} = cpos r).
          { rewrite Hend, Ec. unfold cpos. cbn. lia. }
          split; [|split; [exact Hp1|]].
          -- rewrite Hdrop, (dropN_all (cr_consumed r)).
             ++ cbn [app]. rewrite cdata_cons. apply prefix_app.
             ++ rewrite nth_buf_len by (destruct Hg as [?|(? & _)]; auto). lia.
          -- intros _ E0. pose proof (nth_chan_len nch f c Hf Hc) as Hl. rewrite E0 in Hl. cbn in Hl.
             destruct Hf as (_ & ? & _). lia.
        * destruct Hf as (Hn & _ & Hall). split; [exact Hn|]. now exists (pcm_frames f).
        * intros _. right. exists f, rest. split; [reflexivity|]. split; [exact Hf|]. repeat split.
  Qed.

  (* ---- consume (k <= available) *)
  Lemma chan_consume_ok r k : CInv r -> k <= pcm_frames (d_buf (cr_dec r)) - cr_consumed r ->
    CInv (fst (chan_consume F r k)) /\ cur_ok data (abs_c F c (r, CConsume k, snd (chan_consume F r k))) /\
    fst (chan_consume F r k) = {| cr_dec := cr_dec r; cr_consumed := cr_consumed r + k |} /\
    snd (chan_consume F r k) = OUnit.
  Proof.
    intros I Hk. destruct (cinv_facts r I) as (Hle & _ & _ & _ & Hcur).
    unfold cur_ok, abs_c. cbn [e_pos e_op e_out e_pos' chan_step].
    destruct I as (pre & E & Ec & Hcl & Hg & Hpre).
    pose proof (total_lt_u64 F V) as Ht.
    assert (Hb : pcm_frames (d_buf (cr_dec r)) <= total_frames F).
    { destruct Hg as [->|(_ & ?)]; [cbn; lia | assumption]. }
    unfold chan_consume. rewrite u64_add_ok by lia. cbn [fst snd abs_out_data chan_of no_item].
    assert (I1 : CInv {| cr_dec := cr_dec r; cr_consumed := cr_consumed r + k |}).
    { exists pre. cbn [cr_dec cr_consumed]. split; [exact E|]. split; [exact Ec|]. split; [lia|].
      split; [exact Hg|]. intros Hlt. apply Hpre. lia. }
    split; [exact I1|]. split; [|auto]. split; [exact Hle|]. split; [now apply cpos_le|].
    unfold cpos. cbn [cr_dec cr_consumed]. lia.
  Qed.

  (* ---- seek *)
  Lemma chan_skip_spec fuel : forall r pos sample,
    CInv r -> cpos r = pos -> pos <= sample -> sample < U64 ->
    (pos < sample -> pcm_frames (d_buf (cr_dec r)) <= cr_consumed r) ->
    (length (d_rest (cr_dec r)) < fuel)%nat ->
    let (r', o) := chan_skip F fuel r pos sample in
    CInv r' /\
    ((sample <= total_frames F /\ o = OUnit /\ cpos r' = sample) \/
     (total_frames F < sample /\ o = OErr EOther /\ cpos r' = lenN data)).
  Proof.
    pose proof (v_channels F V) as Hch. pose proof cdata_total_len as Hlen.
    induction fuel as [|fuel IH]; intros r pos sample I P Hle Hd Hbuf Hfuel; [lia|].
    cbn [chan_skip]. destruct (N.ltb_spec pos sample) as [Hlt|Hge].
    - specialize (Hbuf Hlt). destruct (chan_fill_ok r I) as (I1 & C1 & _ & Hcases).
      destruct C1 as (_ & _ & C1). cbn [abs_c e_op e_out e_pos e_pos' chan_step] in C1.
      destruct (chan_fill_buf F r) as [r1 o1]. cbn [fst snd] in *.
      destruct (Hcases Hbuf) as [(Er & -> & ->)|(f & rest & Er & Hf & -> & Er1 & Eb1 & Ec1)].
      + (* end of stream *)
        assert (Hm : exists m, repeatN (@nil Z) nch = [] :: m).
        { unfold repeatN. clear - Hch. destruct (N.to_nat nch) as [|m] eqn:En; [lia|]. now exists (repeat [] m). }
        destruct Hm as (m & ->). cbn [lenN length N.of_nat].
        split; [exact I|]. right.
        destruct (cinv_facts r I) as (_ & _ & _ & Hend & _). specialize (Hend Hbuf).
        destruct I as (pre & E & Ec & _). rewrite Er, app_nil_r in E.
        assert (cpos r = total_frames F) by (rewrite Hend, Ec; unfold total_frames; now rewrite E).
        split; [lia|]. split; [reflexivity|]. lia.
      + (* a frame arrived *)
        destruct f as [|c0 cs] eqn:Ef; [destruct Hf as (Hn & _); cbn in Hn; lia|]. rewrite <- Ef in *.
        assert (Hc0 : lenN c0 = pcm_frames f) by (rewrite Ef; reflexivity).
        rewrite Hc0. destruct (pcm_frames f) as [|pf] eqn:Epf; [destruct Hf as (_ & ? & _); lia|].
        rewrite <- Epf in *.
        rewrite u64_sub_ok by lia. cbn [bind]. rewrite (v_usize F V), usize_ok by lia.
        set (tc := N.min (pcm_frames f) (sample - pos)).
        assert (Hk : tc <= pcm_frames (d_buf (cr_dec r1)) - cr_consumed r1) by (rewrite Eb1, Ec1; unfold tc; lia).
        destruct (chan_consume_ok r1 tc I1 Hk) as (I2 & C2 & E2 & O2).
        destruct C2 as (_ & _ & C2). cbn [abs_c e_op e_out e_pos e_pos' chan_step] in C2.
        destruct (chan_consume F r1 tc) as [r2 o2]. cbn [fst snd] in *. subst o2.
        cbn [abs_out_data chan_of no_item] in C1, C2. destruct C1 as (_ & C1 & _).
        assert (Hp2 : cpos r2 = pos + tc) by (rewrite C2, C1, P; reflexivity).
        rewrite u64_add_ok by (unfold tc; lia).
        apply IH.
        * exact I2.
        * exact Hp2.
        * unfold tc. lia.
        * exact Hd.
        * intros Hlt2. rewrite E2. cbn [cr_dec cr_consumed]. rewrite Eb1, Ec1. unfold tc in *. lia.
        * rewrite E2. cbn [cr_dec]. rewrite Er1. rewrite Er in Hfuel. cbn [length] in Hfuel. lia.
    - split; [exact I|]. left. assert (pos = sample) by lia. subst sample.
      pose proof (cpos_le r I) as Hle1. rewrite P, Hlen in Hle1. auto.
  Qed.

  Lemma chan_seek_ok r s : CInv r -> s < U64 ->
    CInv (fst (chan_seek F r s)) /\ cur_ok data (abs_c F c (r, CSeek s, snd (chan_seek F r s))) /\
    (f_seekable F = true -> total_frames F < s -> cpos (fst (chan_seek F r s)) = lenN data).
  Proof.
    intros I Hs. pose proof (cpos_le r I) as Hle. pose proof cdata_total_len as Hlen.
    unfold cur_ok, abs_c. cbn [e_pos e_op e_out e_pos' chan_step]. unfold sample_target, chan_seek.
    destruct (f_seekable F) eqn:Esk; cbn [negb andb].
    - destruct (dec_seek_spec F V (cr_dec r) s) as (pre & rest & o & E & Eo & Hos & ->).
      rewrite (v_rev F V). cbn [d_buf d_rest].
      set (r0 := {| cr_dec := {| d_rest := rest; d_cur := o; d_buf := d_buf (cr_dec r) |};
                    cr_consumed := pcm_frames (d_buf (cr_dec r)) |}).
      assert (I0 : CInv r0).
      { destruct I as (pre0 & _ & _ & _ & Hg & _). exists pre. cbn [r0 cr_dec cr_consumed d_rest d_cur d_buf].
        split; [exact E|]. split; [exact Eo|]. split; [lia|]. split; [exact Hg|]. intros; lia. }
      assert (P0 : cpos r0 = o) by (unfold cpos, r0; cbn; lia).
      pose proof (chan_skip_spec (S (S (S (length rest)))) r0 o s I0 P0 Hos Hs) as HS.
      cbn [r0 cr_dec cr_consumed d_rest d_buf] in HS. specialize (HS ltac:(intros; lia) ltac:(lia)).
      fold r0 in HS. destruct (chan_skip F (S (S (S (length rest)))) r0 o s) as [r' out].
      destruct HS as (I' & [(Hdl & -> & P')|(Hdl & -> & P')]); cbn [fst snd abs_out_data chan_of no_item].
      + split; [exact I'|]. split; [|intros _ Hgt; lia]. split; [exact Hle|]. split; [now apply cpos_le|].
        replace (s <=? total_frames F) with true by (symmetry; apply N.leb_le; lia).
        rewrite N.mul_1_r. split; [lia | exact P'].
      + split; [exact I'|]. split; [|intros _ _; exact P']. split; [exact Hle|]. split; [now apply cpos_le|].
        replace (s <=? total_frames F) with false by (symmetry; apply N.leb_gt; lia).
        auto.
    - cbn [fst snd abs_out_data chan_of no_item]. split; [exact I|]. split; [|discriminate].
      split; [exact Hle|]. split; [exact Hle|]. auto.
  Qed.
End Chan.
