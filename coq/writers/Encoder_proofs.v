(* writers/Encoder_proofs.v — invariants of the Encoder bookkeeping (Encoder::encode and the
   frame-size extrema of encode_frame): the seek point candidates, samples_written, the byte
   counter and the STREAMINFO extrema describe the emitted frames exactly. *)
From FlacWriters Require Import Writers Lists_proofs.
Open Scope N_scope.

(* (PCM frames, byte length) of every emitted frame, oldest first *)
Definition info_rev (em : list block) (fr : list (list N)) : list (N * N) :=
  combine (map block_len em) (map (fun f => N.of_nat (length f)) fr).
Definition frames_info (e : encoder) : list (N * N) := rev (info_rev (e_emitted_rev e) (e_frames_rev e)).

Definition sum_fst (l : list (N * N)) : N := fold_right (fun x acc => fst x + acc) 0 l.
Definition sum_snd (l : list (N * N)) : N := fold_right (fun x acc => snd x + acc) 0 l.

Lemma sum_fst_app a b : sum_fst (a ++ b) = sum_fst a + sum_fst b.
Proof. induction a as [|x a IH]; cbn [app sum_fst fold_right]; [reflexivity|]. fold (sum_fst (a ++ b)) (sum_fst a). lia. Qed.
Lemma sum_snd_app a b : sum_snd (a ++ b) = sum_snd a + sum_snd b.
Proof. induction a as [|x a IH]; cbn [app sum_snd fold_right]; [reflexivity|]. fold (sum_snd (a ++ b)) (sum_snd a). lia. Qed.

Lemma frame_seekpoints_app : forall a b s c,
  frame_seekpoints s c (a ++ b) = frame_seekpoints s c a ++ frame_seekpoints (s + sum_fst a) (c + sum_snd a) b.
Proof.
  induction a as [|[n len] a IH]; intros b s c; cbn [app frame_seekpoints sum_fst sum_snd fold_right].
  - rewrite !N.add_0_r. reflexivity.
  - rewrite IH. fold (sum_fst a) (sum_snd a). cbn [fst snd]. f_equal. f_equal. f_equal; lia.
Qed.

(* frame-size extrema as encode_frame computes them, over a list of frame lengths (oldest first) *)
Definition qualifies (size : N) : bool := (size <? 2 ^ 32) && (size <? MAX_FRAME_SIZE) && negb (size =? 0).
Definition opt_min (o : option N) (s : N) : option N := Some (match o with Some m => N.min s m | None => s end).
Definition opt_max (o : option N) (s : N) : option N := Some (match o with Some m => N.max s m | None => s end).
Definition fs_min (lens : list N) : option N := fold_left (fun o s => if qualifies s then opt_min o s else o) lens None.
Definition fs_max (lens : list N) : option N := fold_left (fun o s => if qualifies s then opt_max o s else o) lens None.

(* what these folds compute: None iff no frame qualifies, else a qualifying length that bounds all *)
Lemma fold_min_spec : forall lens o,
  match fold_left (fun o s => if qualifies s then opt_min o s else o) lens o with
  | None => o = None /\ Forall (fun s => qualifies s = false) lens
  | Some m =>
      (o = Some m \/ (In m lens /\ qualifies m = true)) /\
      (forall x, o = Some x -> m <= x) /\ (forall s, In s lens -> qualifies s = true -> m <= s)
  end.
Proof.
  induction lens as [|s lens IH]; intros o; cbn [fold_left].
  - destruct o as [m|]; [|auto]. repeat split; auto. intros x E; inversion E; lia. intros s [].
  - specialize (IH (if qualifies s then opt_min o s else o)).
    destruct (fold_left _ lens _) as [m|].
    + destruct IH as (A & B & C). destruct (qualifies s) eqn:Q.
      * unfold opt_min in *. repeat split.
        -- destruct A as [A|[A1 A2]]; [|right; split; [right|]; auto].
           inversion A; subst. destruct o as [m0|].
           ++ destruct (N.min_spec s m0) as [[_ E]|[_ E]]; rewrite E; [right; split; [left|]; auto|left; reflexivity].
           ++ right. split; [left|]; auto.
        -- intros x E. subst o. specialize (B _ eq_refl). lia.
        -- intros s' [<-|Hin] Qs; [|auto]. destruct o as [m0|]; specialize (B _ eq_refl); lia.
      * repeat split; auto.
        -- destruct A as [A|[A1 A2]]; [left; exact A|right; split; [right|]; auto].
        -- intros s' [<-|Hin] Qs; [congruence|auto].
    + destruct IH as [A B]. destruct (qualifies s) eqn:Q; [unfold opt_min in A; discriminate|].
      split; [exact A|]. constructor; auto.
Qed.

Lemma fold_max_spec : forall lens o,
  match fold_left (fun o s => if qualifies s then opt_max o s else o) lens o with
  | None => o = None /\ Forall (fun s => qualifies s = false) lens
  | Some m =>
      (o = Some m \/ (In m lens /\ qualifies m = true)) /\
      (forall x, o = Some x -> x <= m) /\ (forall s, In s lens -> qualifies s = true -> s <= m)
  end.
Proof.
  induction lens as [|s lens IH]; intros o; cbn [fold_left].
  - destruct o as [m|]; [|auto]. repeat split; auto. intros x E; inversion E; lia. intros s [].
  - specialize (IH (if qualifies s then opt_max o s else o)).
    destruct (fold_left _ lens _) as [m|].
    + destruct IH as (A & B & C). destruct (qualifies s) eqn:Q.
      * unfold opt_max in *. repeat split.
        -- destruct A as [A|[A1 A2]]; [|right; split; [right|]; auto].
           inversion A; subst. destruct o as [m0|].
           ++ destruct (N.max_spec s m0) as [[_ E]|[_ E]]; rewrite E; [left; reflexivity|right; split; [left|]; auto].
           ++ right. split; [left|]; auto.
        -- intros x E. subst o. specialize (B _ eq_refl). lia.
        -- intros s' [<-|Hin] Qs; [|auto]. destruct o as [m0|]; specialize (B _ eq_refl); lia.
      * repeat split; auto.
        -- destruct A as [A|[A1 A2]]; [left; exact A|right; split; [right|]; auto].
        -- intros s' [<-|Hin] Qs; [congruence|auto].
    + destruct IH as [A B]. destruct (qualifies s) eqn:Q; [unfold opt_max in A; discriminate|].
      split; [exact A|]. constructor; auto.
Qed.

Lemma fs_min_snoc lens s : fs_min (lens ++ [s]) = if qualifies s then opt_min (fs_min lens) s else fs_min lens.
Proof. unfold fs_min. rewrite fold_left_app. reflexivity. Qed.
Lemma fs_max_snoc lens s : fs_max (lens ++ [s]) = if qualifies s then opt_max (fs_max lens) s else fs_max lens.
Proof. unfold fs_max. rewrite fold_left_app. reflexivity. Qed.

Section Inv.
Variable enc_block : N -> block -> res (list N).
Variable p : profile.

(* the true totals, from the ghost lists *)
Definition true_samples (e : encoder) : N := sum_fst (frames_info e).
Definition true_bytes (e : encoder) : N := sum_snd (frames_info e).
Definition counters_fit (e : encoder) : Prop := true_samples e < 2 ^ 64 /\ true_bytes e < 2 ^ 64.

Record enc_inv (e : encoder) : Prop := {
  inv_len : length (e_emitted_rev e) = length (e_frames_rev e);
  inv_points : seekpoints e = frame_seekpoints 0 0 (frames_info e);
  inv_written : e_samples_written e = true_samples e;
  inv_count : e_count e = true_bytes e;
  inv_number : e_frame_number e = N.of_nat (length (e_frames_rev e));
  inv_min : si_min_fs (e_si e) = fs_min (map snd (frames_info e));
  inv_max : si_max_fs (e_si e) = fs_max (map snd (frames_info e));
  inv_blocks : Forall (fun n => n < 65536) (map fst (frames_info e));
  inv_fit : counters_fit e }.

Lemma frames_info_cons e b bytes (e' : encoder) :
  length (e_emitted_rev e) = length (e_frames_rev e) ->
  e_emitted_rev e' = b :: e_emitted_rev e -> e_frames_rev e' = bytes :: e_frames_rev e ->
  frames_info e' = frames_info e ++ [(block_len b, N.of_nat (length bytes))].
Proof. intros L E1 E2. unfold frames_info, info_rev. rewrite E1, E2. cbn [map combine rev]. reflexivity. Qed.

Lemma u64_add_ok a b r : u64_add p a b = Ok r -> a + b < 2 ^ 64 -> r = a + b.
Proof.
  unfold u64_add. intros H L. destruct (N.ltb_spec (a + b) (2 ^ 64)); [inversion H; reflexivity|lia].
Qed.

(* one Encoder::encode step keeps the invariant (the counters of the result fitting u64) *)
Lemma encoder_encode_inv e b e' :
  enc_inv e -> encoder_encode enc_block p e b = Ok e' -> block_len b < 65536 -> counters_fit e' ->
  enc_inv e' /\ exists bytes, enc_block (e_frame_number e) b = Ok bytes /\
    frames_info e' = frames_info e ++ [(block_len b, N.of_nat (length bytes))] /\
    e_md5_rev e' = e_md5_rev e /\ e_si e' = update_frame_sizes (e_si e) (N.of_nat (length bytes)) /\
    (match si_total (e_si e) with Some t => e_samples_written e' <= t | None => True end).
Proof.
  intros I H Hb Hfit. pose proof Hfit as [Fs Fb]. unfold encoder_encode in H.
  destruct (si_max_bs (e_si e) <? block_len b); [discriminate|].
  apply bind_ok in H. destruct H as (wr & Hw & H).
  destruct (match si_total (e_si e) with Some t => (t <? wr) | None => false end) eqn:Ht; [discriminate|].
  destruct (8 <? N.of_nat (length b)); [discriminate|].
  apply bind_ok in H. destruct H as (bytes & He & H).
  apply bind_ok in H. destruct H as (cnt & Hc & H). inversion H; subst e'. clear H.
  set (e' := {| e_prefix := e_prefix e; e_meta := e_meta e; e_frames_rev := bytes :: e_frames_rev e;
                e_interval := e_interval e; e_blocks := e_blocks e;
                e_si := update_frame_sizes (e_si e) (N.of_nat (length bytes));
                e_frame_number := e_frame_number e + 1; e_samples_written := wr;
                e_seekpoints_rev := _ :: e_seekpoints_rev e; e_count := cnt;
                e_md5_rev := e_md5_rev e; e_emitted_rev := b :: e_emitted_rev e |}) in *.
  assert (Fi : frames_info e' = frames_info e ++ [(block_len b, N.of_nat (length bytes))])
    by (apply (frames_info_cons e b bytes e' (inv_len e I)); reflexivity).
  unfold true_samples, true_bytes in Fs, Fb. rewrite Fi in Fs, Fb.
  rewrite sum_fst_app in Fs. rewrite sum_snd_app in Fb.
  cbn [sum_fst sum_snd fold_right fst snd] in Fs, Fb.
  apply u64_add_ok in Hw; [|rewrite (inv_written e I); unfold true_samples; lia].
  apply u64_add_ok in Hc; [|rewrite (inv_count e I); unfold true_bytes; lia].
  split.
  - constructor.
    + cbn. f_equal. apply (inv_len e I).
    + unfold seekpoints. cbn [e_seekpoints_rev e' rev]. fold (seekpoints e).
      rewrite Fi, frame_seekpoints_app, (inv_points e I). cbn [frame_seekpoints]. f_equal.
      rewrite (inv_written e I), (inv_count e I). unfold true_samples, true_bytes.
      rewrite N.mod_small by exact Hb. rewrite !N.add_0_l. reflexivity.
    + cbn [e_samples_written e']. unfold true_samples. rewrite Fi, sum_fst_app, Hw, (inv_written e I).
      unfold true_samples. cbn [sum_fst fold_right fst]. lia.
    + cbn [e_count e']. unfold true_bytes. rewrite Fi, sum_snd_app, Hc, (inv_count e I).
      unfold true_bytes. cbn [sum_snd fold_right snd]. lia.
    + cbn. rewrite (inv_number e I). lia.
    + change (e_si e') with (update_frame_sizes (e_si e) (N.of_nat (length bytes))).
      rewrite Fi, map_app. cbn [map snd]. rewrite fs_min_snoc, <- (inv_min e I).
      unfold update_frame_sizes, qualifies. destruct (_ && _ && _); reflexivity.
    + change (e_si e') with (update_frame_sizes (e_si e) (N.of_nat (length bytes))).
      rewrite Fi, map_app. cbn [map snd]. rewrite fs_max_snoc, <- (inv_max e I).
      unfold update_frame_sizes, qualifies. destruct (_ && _ && _); reflexivity.
    + rewrite Fi, map_app. apply Forall_app. split; [apply (inv_blocks e I)|]. constructor; auto.
    + exact Hfit.
  - exists bytes. repeat split; auto.
    destruct (si_total (e_si e)) as [t|]; [|trivial]. change (e_samples_written e') with wr.
    destruct (N.ltb_spec t wr); [discriminate|lia].
Qed.

(* the ghost totals only grow *)
Lemma encoder_encode_grows e b e' : length (e_emitted_rev e) = length (e_frames_rev e) ->
  encoder_encode enc_block p e b = Ok e' ->
  true_samples e <= true_samples e' /\ true_bytes e <= true_bytes e' /\
  length (e_emitted_rev e') = length (e_frames_rev e').
Proof.
  intros L H. unfold encoder_encode in H.
  destruct (si_max_bs (e_si e) <? block_len b); [discriminate|].
  apply bind_ok in H. destruct H as (wr & Hw & H).
  destruct (match si_total (e_si e) with Some t => (t <? wr) | None => false end); [discriminate|].
  destruct (8 <? N.of_nat (length b)); [discriminate|].
  apply bind_ok in H. destruct H as (bytes & He & H).
  apply bind_ok in H. destruct H as (cnt & Hc & H).
  assert (E1 : e_emitted_rev e' = b :: e_emitted_rev e) by (inversion H; reflexivity).
  assert (E2 : e_frames_rev e' = bytes :: e_frames_rev e) by (inversion H; reflexivity).
  unfold true_samples, true_bytes.
  rewrite (frames_info_cons e b bytes e' L E1 E2).
  rewrite sum_fst_app, sum_snd_app, E1, E2. cbn [length]. repeat split; try lia.
Qed.

Lemma md5_consume_inv e bytes : enc_inv e -> enc_inv (md5_consume e bytes).
Proof. intros I. destruct I. constructor; assumption. Qed.

End Inv.
