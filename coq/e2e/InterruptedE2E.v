(* E2E/InterruptedE2E.v — C14 across the areas: whatever a writer run has put on the underlying stream when it is
   interrupted before finalize — the provisional metadata region, the frames of the blocks encoded so far, and the
   frame of the next block cut at any byte — opens and decodes to exactly the blocks encoded so far. *)
From Coq Require Import List NArith ZArith Lia.
From FlacBase Require Import Res Bits.
From FlacCodec Require Ast Stream File Enc Enc_proofs Wf Interrupted Header Progress.
From FlacWriters Require Import Meta Params Finalize Finalize_proofs C09_proofs Writers Lists_proofs.
From FlacE2E Require Import Bridge E2E.
Import ListNotations.
Open Scope N_scope.

Module EP := FlacCodec.Enc_proofs.
Module E := FlacCodec.Enc.
Module CS := FlacCodec.Stream.

Section InterruptedE2E.
Variable o : E.eopts.
Variable L : E.oracle.
Variable md5 : list N -> list N.
Hypothesis md5_length : forall l, length (md5 l) = 16%nat.
Variable p : profile.
Variable rate bps : N.

Lemma encoder_new_written wo ch total e0 :
  encoder_new p [] wo rate bps ch total = Ok e0 ->
  write_blocks (e_si e0) (e_blocks e0) = Ok (e_meta e0) /\ md5_len_ok (e_si e0).
Proof.
  unfold encoder_new. intros H.
  apply bind_ok in H. destruct H as ([] & _ & H).
  apply bind_ok in H. destruct H as (bl & _ & H).
  apply bind_ok in H. destruct H as (meta & Hm & H). injection H as <-. cbn. split; [exact Hm|exact I].
Qed.

Theorem e2e_interrupted wo ch total e0 bl e b gb m :
  encoder_new p [] wo rate bps ch total = Ok e0 ->
  reach o L p rate bps e0 bl e ->
  let si := conv_si (e_si e0) in
  Forall (fun x => EP.block_ok si bps x /\ 14 < E.block_len x) (bl ++ [b]) ->
  N.of_nat (length bl) + 1 <= FlacCodec.Header.MAX_FRAME_NUMBER + 1 ->
  E.enc_frame_bytes o L rate bps (N.of_nat (length bl)) b = Some gb -> (m < length gb)%nat ->
  match total with Some T => EP.blocks_samples bl + E.block_len b <= T | None => True end ->
  match CS.dec_stream (stream e ++ firstn m gb) with
  | Some (si', out, en) => si' = si /\ out = map CS.interleave_frame bl /\ FlacCodec.Progress.is_end_panic en = false
  | None => False
  end.
Proof.
  intros Hnew Hr si Hall Hk Hg Hm Ht.
  destruct (encoder_new_fresh p rate bps _ _ _ _ Hnew) as (P0 & F0 & K0 & W0 & Sr & Sb & Sc & Smax & Smin & St).
  destruct (reach_inv o L md5 md5_length p rate bps e0 bl e Hr) as ((M1 & M2 & M3 & M4) & _ & _ & _ & _ & _ & _ & _ & _ & bytes & Hb & Hf).
  rewrite K0 in Hb.
  assert (Hfr : frames_bytes e = bytes) by (rewrite Hf; unfold frames_bytes; rewrite F0; reflexivity).
  destruct (encoder_new_written wo ch total e0 Hnew) as [Hw Hmd].
  unfold stream. rewrite M3, P0, M1, Hfr. cbn [app]. rewrite <- !app_assoc.
  unfold CS.dec_stream. rewrite (read_written_metadata (e_si e0) (e_blocks e0) (e_meta e0) _ Hw Hmd). fold si.
  assert (Hrate : FlacCodec.Ast.si_rate si = rate) by (unfold si, conv_si; cbn; exact Sr).
  assert (Hbps : FlacCodec.Ast.si_bps si = bps) by (unfold si, conv_si; cbn; exact Sb).
  assert (Htotal : FlacCodec.Ast.si_total si = match total with Some T => T | None => 0 end).
  { unfold si, conv_si. cbn. rewrite St. destruct total; reflexivity. }
  rewrite <- Hrate, <- Hbps in Hb, Hg. rewrite <- Hbps in Hall.
  apply Forall_app in Hall. destruct Hall as [Hbl Hbb]. apply Forall_cons_iff in Hbb. destruct Hbb as [[Hbok H14] _].
  assert (Hk0 : 0 + N.of_nat (length bl) <= FlacCodec.Header.MAX_FRAME_NUMBER + 1 /\ N.of_nat (length bl) <= FlacCodec.Header.MAX_FRAME_NUMBER).
  { clear - Hk. set (MX := FlacCodec.Header.MAX_FRAME_NUMBER) in *. clearbody MX. lia. }
  destruct Hk0 as [Hk0 Hk1].
  destruct (FlacCodec.File.enc_blocks_frames o L si bl 0 bytes Hb Hbl Hk0) as (fs & Hfb & Hfo & Hsem & Htot).
  unfold E.enc_frame_bytes in Hg. destruct (E.enc_frame o L _ _ _ b) as [g|] eqn:Eg; [|discriminate].
  destruct (EP.enc_frame_ok o L si _ _ _ b g Eg Hbok eq_refl Hk1) as (Hwf & Hsp & Hsm & _ & Hbs).
  pose proof (FlacCodec.Interrupted.interrupted_stream si fs bytes g gb m (S (length (bytes ++ firstn m gb))) 0 [] Hfo Hfb) as H.
  specialize (H ltac:(unfold FlacCodec.Interrupted.frame_ok; rewrite Hbs; auto) Hg Hm).
  specialize (H ltac:(rewrite Htot, Hbs, Htotal, N.add_0_l; destruct total; [right; exact Ht|left; reflexivity])).
  specialize (H ltac:(rewrite app_length, firstn_length; lia)).
  destruct (CS.dec_frames _ si 0 (bytes ++ firstn m gb) []) as [out en]. destruct H as [A B].
  split; [reflexivity|]. split; [|exact B]. rewrite A, <- Hsem, map_map. reflexivity.
Qed.

End InterruptedE2E.

(* ---- the same for a FlacSampleWriter run interrupted after any sequence of write calls ---- *)
From FlacWriters Require Import Params_proofs Writers_proofs New_proofs.
From FlacE2E Require Import Sample SampleE2E.

Theorem sample_writer_interrupted : forall o L p rate bps wo ch total w chunks w',
  options_wf wo ->
  sample_new p [] wo rate bps ch total = Ok w ->
  fold_res (sample_write (encB o L rate bps) p) w chunks = Ok w' ->
  forallb (FlacCodec.Wf.fits bps) (concat chunks) = true ->
  N.of_nat (length (concat chunks)) < 2 ^ 36 ->
  let si := conv_si (e_si (sw_enc w)) in
  let K := N.to_nat (ch * o_block_size wo) in
  exists bl,
    concat (map CS.interleave_frame bl) = firstn (K * (length (concat chunks) / K)) (concat chunks) /\
    forall b gb m,
      EP.block_ok si bps b -> E.block_len b = o_block_size wo ->
      E.enc_frame_bytes o L rate bps (N.of_nat (length bl)) b = Some gb -> (m < length gb)%nat ->
      match si_total (e_si (sw_enc w)) with Some t => EP.blocks_samples bl + E.block_len b <= t | None => True end ->
      match CS.dec_stream (stream (sw_enc w') ++ firstn m gb) with
      | Some (si', out, en) => si' = si /\ out = map CS.interleave_frame bl /\ FlacCodec.Progress.is_end_panic en = false
      | None => False
      end.
Proof.
  intros o L p rate bps wo ch total w chunks w' Hwf Hnew Hw Hfits Hlen36 si K.
  set (md5 := fun _ : list N => repeat 0 16).
  assert (Hmd : forall l, length (md5 l) = 16%nat) by (intros; reflexivity).
  pose proof (sample_new_wf p [] wo rate bps ch total w Hwf Hnew) as Hsw.
  rewrite (sample_write_concat (encB o L rate bps) p chunks w Hsw) in Hw.
  set (all := concat chunks) in *.
  destruct Hwf as ((Hbs16 & Hbs64k) & _).
  unfold sample_new in Hnew. apply bind_ok in Hnew. destruct Hnew as (bps' & Hbps' & Hnew).
  apply bind_ok in Hnew. destruct Hnew as (t & Ht & Hnew). apply bind_ok in Hnew. destruct Hnew as (e0 & He0 & Hnew).
  injection Hnew as <-. cbn [sw_enc] in *.
  assert (Eb : bps' = bps /\ 1 <= bps /\ bps <= 32).
  { unfold signed_bit_count_32 in Hbps'. destruct ((1 <=? bps) && (bps <=? 32)) eqn:Eq; [|discriminate]. injection Hbps' as <-.
    apply andb_prop in Eq. destruct Eq as [A B]. apply N.leb_le in A, B. auto. }
  destruct Eb as (-> & Hb1 & Hb32).
  assert (Hch : 1 <= ch /\ ch <= 8).
  { unfold encoder_new in He0. apply bind_ok in He0. destruct He0 as ([] & Hv & _). unfold encoder_new_validate in Hv.
    destruct (rate <? 1048576); [|discriminate]. destruct ((1 <=? ch) && (ch <=? 8)) eqn:Eq; [|discriminate].
    apply andb_prop in Eq. destruct Eq as [A B]. apply N.leb_le in A, B. auto. }
  destruct Hch as [Hc1 Hc8].
  set (bs := o_block_size wo) in *.
  destruct (encoder_new_fresh p rate bps wo ch t e0 He0) as (P0 & F0 & K0 & W0 & Sr & Sb & Sc & Smax & Smin & St).
  unfold sample_write in Hw. cbn [sw_buf sw_frame_sample_size sw_enc sw_channels sw_bytes_per_sample app] in Hw.
  destruct (N.eqb_spec (ch * bs) 0) as [|Hk0]; [discriminate|].
  assert (Hk : (0 < K)%nat) by (unfold K; lia).
  fold K in Hw. destruct (drain K all) as [cs rest] eqn:Ed.
  apply bind_ok in Hw. destruct Hw as (e1 & He1 & Hw). injection Hw as <-. cbn [sw_enc].
  pose proof (drain_spec K Hk all cs rest Ed) as (Eall & Fcs & Lrest).
  pose proof (drain_length K Hk all cs rest Ed) as Ldr.
  destruct (chunks_reach_blocks o L p rate bps _ _ _ _ _ He1) as (bl1 & Hf1 & Hr1).
  assert (Ssb : FlacCodec.Ast.si_bps si = bps) by (unfold si, conv_si; cbn; exact Sb).
  assert (Ssc : FlacCodec.Ast.si_channels si = ch) by (unfold si, conv_si; cbn; exact Sc).
  assert (Ssm : FlacCodec.Ast.si_max_bs si = bs) by (unfold si, conv_si; cbn; exact Smax).
  assert (Hkk : K = (N.to_nat ch * N.to_nat bs)%nat) by (unfold K; lia).
  assert (Hcs : Forall (chunk_cond bps ch bs) cs).
  { apply Forall_forall. intros c Hc. exists (N.to_nat bs). rewrite Forall_forall in Fcs.
    split; [lia|]. split; [lia|]. split; [rewrite (Fcs _ Hc); exact Hkk|].
    apply forallb_forall. intros z Hz. rewrite forallb_forall in Hfits. apply Hfits. rewrite Eall.
    apply in_or_app. left. apply in_concat. exists c. auto. }
  destruct (chunks_blocks_ok bps si ch bs Hc1 Hc8 Hb1 Hb32 ltac:(lia) Ssb Ssc Ssm _ _ Hf1 Hcs) as (Hok & Hcat & _ & Hcount & Hl1).
  assert (Hfullbl : Forall (fun b => FlacCodec.Enc.block_len b = bs) bl1).
  { clear - Hl1 Fcs Hkk Hbs16 Hc1. induction Hl1 as [|c b cl bl Hcb _ IH]; constructor.
    * apply Forall_cons_iff in Fcs. destruct Fcs as [Lc _]. rewrite Lc, Hkk in Hcb.
      assert (N.to_nat (FlacCodec.Enc.block_len b) = N.to_nat bs) by nia. lia.
    * apply IH. apply Forall_cons_iff in Fcs. tauto. }
  assert (Lcs : length (concat cs) = (K * length cs)%nat).
  { clear - Fcs. induction Fcs as [|c l Hc _ IH]; cbn [concat length]; [lia|]. rewrite app_length, IH, Hc. lia. }
  exists bl1. split.
  { rewrite Hcat.
    assert (Eq : (length all / K = length cs)%nat).
    { rewrite Ldr, (Nat.mul_comm K (length cs)), Nat.div_add_l by lia. rewrite (Nat.div_small (length rest) K) by lia. lia. }
    rewrite Eq, <- Lcs, Eall, firstn_app, Nat.sub_diag, firstn_all. cbn [firstn]. rewrite app_nil_r. reflexivity. }
  intros b gb m Hbok Hbfull Hg Hm Htot.
  apply (e2e_interrupted o L md5 Hmd p rate bps wo ch t e0 bl1 e1 b gb m He0 Hr1); try assumption.
  - fold si. apply Forall_app. split.
    + apply Forall_forall. intros x Hx. rewrite Forall_forall in Hok, Hfullbl. split; [apply Hok; exact Hx|]. rewrite (Hfullbl x Hx). lia.
    + constructor; [|constructor]. split; [exact Hbok|]. rewrite Hbfull. fold bs. lia.
  - assert (Hle : (length bl1 <= length all)%nat) by (rewrite Hcount, Ldr; nia).
    unfold FlacCodec.Header.MAX_FRAME_NUMBER. change (2 ^ 36 - 1 + 1) with (2 ^ 36). lia.
  - rewrite <- St. exact Htot.
Qed.
