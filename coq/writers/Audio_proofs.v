(* writers/Audio_proofs.v — facts about the audio.rs / byteorder.rs pieces of Writers.v:
   Frame::fill_from_samples on whole PCM frames, channels <-> PCM frames, byte serialisation. *)
From FlacWriters Require Import Writers Lists_proofs.
Open Scope nat_scope.

(* ---- channels_of_frames / multizip *)
Lemma zip_cons_shape f : forall chs m, length f = length chs -> Forall (fun c => length c = m) chs ->
  length (zip_cons f chs) = length chs /\ Forall (fun c => length c = S m) (zip_cons f chs).
Proof.
  induction f as [|x f IH]; intros [|c chs] m L F; cbn [zip_cons length] in *; try lia.
  - split; [reflexivity|constructor].
  - inversion F as [|? ? H1 H2]; subst. destruct (IH chs (length c) ltac:(lia) H2) as [L1 F1].
    split; [lia|]. constructor; auto.
Qed.

Lemma channels_of_frames_shape k : forall fs, Forall (fun f => length f = k) fs ->
  length (channels_of_frames k fs) = k /\
  Forall (fun c => length c = length fs) (channels_of_frames k fs).
Proof.
  induction 1 as [|f fs Hf F [L1 F1]]; cbn [channels_of_frames length].
  - split; [apply repeat_length|]. apply Forall_forall. intros c Hc. apply repeat_spec in Hc. subst. reflexivity.
  - destruct (zip_cons_shape f (channels_of_frames k fs) (length fs) ltac:(lia) F1) as [L2 F2].
    split; [lia|exact F2].
Qed.

Lemma heads_zip_cons f : forall chs, length f = length chs -> heads (zip_cons f chs) = Some f.
Proof.
  induction f as [|x f IH]; intros [|c chs] L; cbn in *; try lia; auto.
  rewrite IH by lia. reflexivity.
Qed.
Lemma tails_zip_cons f : forall chs, length f = length chs -> tails (zip_cons f chs) = chs.
Proof.
  induction f as [|x f IH]; intros [|c chs] L; cbn in *; try lia; auto.
  unfold tails in IH. rewrite IH by lia. reflexivity.
Qed.
Lemma heads_repeat_nil k : 0 < k -> heads (repeat (@nil Z) k) = None.
Proof. destruct k; [lia|]. reflexivity. Qed.

(* interleaving (MultiZip) undoes channels_of_frames *)
Lemma multizip_channels_of_frames k (Hk : 0 < k) : forall fs, Forall (fun f => length f = k) fs ->
  forall fuel, length fs <= fuel -> multizip_fuel fuel (channels_of_frames k fs) = fs.
Proof.
  induction 1 as [|f fs Hf F IH]; intros fuel Hfu; cbn [channels_of_frames].
  - destruct fuel; cbn [multizip_fuel]; [reflexivity|]. rewrite heads_repeat_nil by exact Hk. reflexivity.
  - cbn [length] in Hfu. destruct fuel as [|fu]; [lia|]. cbn [multizip_fuel].
    destruct (channels_of_frames_shape k fs F) as [L _].
    rewrite heads_zip_cons, tails_zip_cons by lia. rewrite IH by lia. reflexivity.
Qed.

Lemma multizip_of_frames k (Hk : 0 < k) fs : Forall (fun f => length f = k) fs ->
  multizip (channels_of_frames k fs) = fs.
Proof.
  intros F. unfold multizip.
  destruct (channels_of_frames_shape k fs F) as [L Fl].
  destruct (channels_of_frames k fs) as [|c r] eqn:E; [cbn in L; lia|].
  rewrite <- E. apply multizip_channels_of_frames; auto.
  inversion Fl; subst. lia.
Qed.

(* ---- fill_from_samples on whole PCM frames *)
Open Scope N_scope.

Lemma drain_whole {A} (k cl : nat) (l : list A) : (0 < k)%nat -> length l = (k * cl)%nat ->
  exists cs, drain k l = (cs, []) /\ length cs = cl /\ Forall (fun c => length c = k) cs /\ l = concat cs.
Proof.
  intros Hk L. destruct (drain k l) as [cs r] eqn:D.
  pose proof (drain_length k Hk l cs r D) as Ln.
  apply drain_spec in D; auto. destruct D as (E & F & Lr).
  assert (length cs = cl /\ length r = 0%nat) as [C R].
  { apply (Nat.div_mod_unique k); try lia. }
  destruct r; [|discriminate]. exists cs. rewrite app_nil_r in E. auto.
Qed.

Lemma fill_from_samples_ok (ch cl : N) (samples : list Z) :
  1 <= ch <= 8 -> 1 <= cl -> N.of_nat (length samples) = ch * cl ->
  exists cs, drain (N.to_nat ch) samples = (cs, []) /\
             fill_from_samples ch samples = Ok (channels_of_frames (N.to_nat ch) cs) /\
             length cs = N.to_nat cl /\ Forall (fun f => length f = N.to_nat ch) cs /\ samples = concat cs.
Proof.
  intros Hch Hcl L. unfold fill_from_samples. rewrite L.
  destruct (N.eqb_spec ch 0); [lia|].
  rewrite (N.mul_comm ch cl), N.div_mul by lia.
  destruct (N.eqb_spec cl 0); [lia|].
  rewrite (N.mul_comm cl ch), N.div_mul by lia.
  destruct (N.ltb_spec 8 ch); [lia|].
  rewrite firstn_all2 by lia.
  destruct (drain_whole (N.to_nat ch) (N.to_nat cl) samples) as (cs & D & Lc & F & E); [lia|lia|].
  exists cs. rewrite D. cbn [fst]. auto.
Qed.

Lemma fill_from_samples_shape ch cl samples blk :
  1 <= ch <= 8 -> 1 <= cl -> N.of_nat (length samples) = ch * cl ->
  fill_from_samples ch samples = Ok blk ->
  length blk = N.to_nat ch /\ Forall (fun c => length c = N.to_nat cl) blk /\ block_len blk = cl.
Proof.
  intros Hch Hcl L H. destruct (fill_from_samples_ok ch cl samples Hch Hcl L) as (cs & _ & E & Lc & F & _).
  rewrite E in H. inversion H; subst. clear H.
  destruct (channels_of_frames_shape (N.to_nat ch) cs F) as [L1 F1]. rewrite Lc in F1.
  split; [exact L1|]. split; [exact F1|].
  unfold block_len. destruct (channels_of_frames (N.to_nat ch) cs) as [|c r]; [cbn in L1; lia|].
  inversion F1; subst. lia.
Qed.
