(* readers/Damaged.v — streams WITH a bad frame (the part NOTES.md listed as "not proved").
   A stream whose frames decode up to some point and whose next frame fails its check (slot SBad g: the decoder
   core errs after having left g's samples in its frame buffer).  For every seek-free history of the sample
   reader and of the byte reader — read / fill_buf / consume / next in any order and with any sizes — up to and
   including the first call that reports an error:
     * everything handed out or shown is, in order and without a gap, a prefix of the samples (bytes) of the
       frames before the bad one: nothing of the failed frame g is ever delivered, nothing is skipped;
     * no call panics;
     * when the checksum error is reported, every sample of the good frames had been decoded: what was handed
       out plus what is still buffered is exactly their data (the error is not raised early, no data is lost).
   The known-total rules of read_frame (remaining count, short-block rule) may end the stream or raise
   another error earlier; the first two items hold regardless.  No hypothesis on STREAMINFO's total. *)
From FlacReaders Require Import Spec Lists_proofs Frame_proofs Core_proofs Run_proofs.
Open Scope N_scope.

Definition failed (o : out) : bool := match o with OErr _ | OPanic _ => true | _ => false end.

Lemma skipn_cons_step {A} (k : nat) (l : list A) x tl : skipn k l = x :: tl ->
  firstn (S k) l = firstn k l ++ [x] /\ skipn (S k) l = tl /\ (k < length l)%nat.
Proof.
  revert l. induction k as [|k IH]; intros l H.
  - destruct l as [|y l]; [discriminate|]. cbn in H. inversion H; subst. cbn. repeat split; lia.
  - destruct l as [|y l]; [discriminate|]. cbn [skipn] in H. destruct (IH l H) as (A1 & A2 & A3).
    rewrite (firstn_cons (S k) y l), (firstn_cons k y l), (skipn_cons (S k) y l), A1, A2. cbn [length app].
    repeat split; auto. lia.
Qed.

Lemma skipn_nil_all {A} (k : nat) (l : list A) : (k <= length l)%nat -> skipn k l = [] -> firstn k l = l.
Proof.
  revert l. induction k as [|k IH]; intros l Hk H.
  - cbn in H. subst. reflexivity.
  - destruct l as [|y l]; [reflexivity|]. rewrite firstn_cons. cbn [skipn length] in *. f_equal. apply IH; [lia|exact H].
Qed.

Lemma sumlen_firstn_le (good : list frame) k :
  sumlen (map SFrame (firstn k good)) <= sumlen (map SFrame good).
Proof.
  rewrite <- (firstn_skipn k good) at 2. rewrite map_app, sumlen_app. lia.
Qed.

Section Damaged.
Variable F : file.
Variables (good : list frame) (g : frame) (rest : list slot).
Hypothesis Hslots : f_slots F = map SFrame good ++ SBad g :: rest.
Hypothesis Hwf : Forall (wf_frame (f_channels F)) good.
Hypothesis Hrange : sumlen (map SFrame good) < U64.

Definition gdata : list Z := sdata (map SFrame good).

(* the decoder has handed out the first k good frames and nothing else *)
Definition dec_at (d : dec) (k : nat) : Prop :=
  (k <= length good)%nat /\
  d_rest d = map SFrame (skipn k good) ++ SBad g :: rest /\
  d_cur d = sumlen (map SFrame (firstn k good)).

Lemma dec_at_new : dec_at (dec_new F) 0.
Proof. unfold dec_at, dec_new. cbn [d_rest d_cur firstn skipn map sumlen]. split; [lia|]. split; [exact Hslots|reflexivity]. Qed.

(* one read_frame from such a state *)
Lemma read_frame_at d k : dec_at d k ->
  match read_frame F d with
  | (d', Ok (Some f)) => exists tl, skipn k good = f :: tl /\ dec_at d' (S k) /\ wf_frame (f_channels F) f /\ d_buf d' = f
  | (d', Ok None) => d' = d
  | (d', Err e) => e = ECrc16 -> k = length good
  | (_, Panic _) => False
  end.
Proof.
  intros (Hk & Hr & Hc).
  assert (NS : forall rem, match next_slot F d rem with
    | (d', Ok (Some f)) => exists tl, skipn k good = f :: tl /\ dec_at d' (S k) /\ wf_frame (f_channels F) f /\ d_buf d' = f
    | (d', Ok None) => d' = d
    | (d', Err e) => e = ECrc16 -> k = length good
    | (_, Panic _) => False
    end).
  { intros rem. unfold next_slot. rewrite Hr.
    destruct (skipn k good) as [|f tl] eqn:Es; cbn [map app].
    - intros _. pose proof (skipn_nil_all k good Hk Es) as E. apply (f_equal (@length frame)) in E.
      rewrite firstn_length_le in E by exact Hk. exact E.
    - destruct (skipn_cons_step k good f tl Es) as (E1 & E2 & E3).
      assert (Wf : wf_frame (f_channels F) f).
      { rewrite Forall_forall in Hwf. apply Hwf. rewrite <- (firstn_skipn k good), Es. apply in_or_app. right. left. reflexivity. }
      match goal with |- context [if ?c then _ else _] => destruct c end; [discriminate|].
      assert (Hb : d_cur d + pcm_frames f < U64).
      { rewrite Hc. pose proof (sumlen_firstn_le good (S k)) as L. rewrite E1, map_app, sumlen_app in L.
        cbn [map sumlen slot_frame] in L. lia. }
      rewrite (u64_add_ok _ _ _ Hb). exists tl. split; [reflexivity|]. split; [|split; [exact Wf|reflexivity]].
      unfold dec_at. cbn [d_rest d_cur]. split; [lia|]. split; [rewrite E2; reflexivity|].
      rewrite E1, map_app, sumlen_app, Hc. cbn [map sumlen slot_frame]. lia. }
  unfold read_frame. destruct (f_total F) as [total|]; [|apply NS].
  destruct (checked_sub total (d_cur d)) as [[|p]|]; [reflexivity|apply NS|discriminate].
Qed.

Lemma sdata_firstn_S k f tl : skipn k good = f :: tl ->
  sdata (map SFrame (firstn (S k) good)) = sdata (map SFrame (firstn k good)) ++ interleave f.
Proof.
  intros Es. destruct (skipn_cons_step k good f tl Es) as (E1 & _ & _).
  rewrite E1, map_app, sdata_app. cbn [map]. rewrite sdata_cons. unfold sdata at 3. cbn. rewrite app_nil_r. reflexivity.
Qed.

Lemma gdata_split k : gdata = sdata (map SFrame (firstn k good)) ++ sdata (map SFrame (skipn k good)).
Proof. unfold gdata. rewrite <- (firstn_skipn k good) at 1. rewrite map_app, sdata_app. reflexivity. Qed.

(* ================================================================== FlacSampleReader *)
Definition s_handed (x : sample_reader * sop * out) : list Z :=
  match x with
  | (_, SRead _, OSamples xs) => xs
  | (_, SNext, OItem (Some v)) => [v]
  | (r, SConsume k, OUnit) => takeN k (sr_buf r)
  | _ => []
  end.
Definition s_shown (x : sample_reader * sop * out) : list Z :=
  match snd x with OSamples xs => xs | OItem (Some v) => [v] | _ => [] end.

(* delivered so far ++ buffered = the data of the good frames decoded so far *)
Definition SI (D : list Z) (r : sample_reader) : Prop :=
  exists k, dec_at (sr_dec r) k /\ D ++ sr_buf r = sdata (map SFrame (firstn k good)).

Lemma SI_prefix D r : SI D r -> prefix (D ++ sr_buf r) gdata.
Proof. intros (k & _ & E). rewrite E, (gdata_split k). apply prefix_app. Qed.

Lemma sample_refill_at D r : SI D r ->
  match sample_refill F r with
  | (r1, Ok true) => SI D r1 /\ exists xs, sr_buf r1 = sr_buf r ++ xs
  | (r1, Ok false) => r1 = r
  | (r1, Err e) => sr_buf r1 = sr_buf r /\ (e = ECrc16 -> D ++ sr_buf r = gdata)
  | (_, Panic _) => False
  end.
Proof.
  intros (k & Hd & E). unfold sample_refill. pose proof (read_frame_at _ k Hd) as RF.
  destruct (read_frame F (sr_dec r)) as [d' [[f|]|e|p]].
  - destruct RF as (tl & Es & Hd' & Wf & _). rewrite (iter_ok _ _ Wf). split.
    + exists (S k). cbn [sr_dec sr_buf]. split; [exact Hd'|]. rewrite app_assoc, E. symmetry. apply (sdata_firstn_S k f tl Es).
    + eexists. reflexivity.
  - subst d'. destruct r; reflexivity.
  - cbn [sr_buf]. split; [reflexivity|]. intros He. specialize (RF He). subst k.
    rewrite firstn_all in E. exact E.
  - exact RF.
Qed.

Definition sop_seek_free (o : sop) : Prop := match o with SSeek _ => False | _ => True end.

(* one call *)
Lemma sample_step_damaged D r op : SI D r -> sop_seek_free op ->
  (match op with SConsume k => k <= lenN (sr_buf r) | _ => True end) ->
  let '(r', o) := sample_step F r op in
  (forall p, o <> OPanic p) /\
  (o = OErr ECrc16 -> D ++ sr_buf r = gdata) /\
  (failed o = false ->
     SI (D ++ s_handed (r, op, o)) r' /\ prefix (D ++ s_shown (r, op, o)) gdata).
Proof.
  intros I Hop Hk. pose proof (SI_prefix D r I) as P.
  destruct op as [n| |k| |s]; cbn [sample_step]; try contradiction.
  - (* read *)
    unfold sample_read. destruct (sr_buf r) as [|b0 btl] eqn:Eb.
    + pose proof (sample_refill_at D r I) as RF. destruct (sample_refill F r) as [r1 [[|]|e|p]].
      * destruct RF as [I1 [xs Ex]]. rewrite Eb in Ex. cbn [app] in Ex.
        unfold sample_drain. rewrite splitN_take_drop.
        split; [discriminate|]. split; [discriminate|]. intros _. cbn [s_handed s_shown snd sr_buf sr_dec].
        destruct I1 as (k1 & Hd1 & E1). split.
        -- exists k1. cbn [sr_dec sr_buf]. split; [exact Hd1|]. rewrite <- app_assoc, take_drop. exact E1.
        -- rewrite (gdata_split k1), <- E1. rewrite <- (take_drop n (sr_buf r1)) at 2. rewrite !app_assoc.
           rewrite <- app_assoc. apply prefix_app.
      * subst r1. split; [discriminate|]. split; [discriminate|]. intros _. cbn [s_handed s_shown snd]. rewrite app_nil_r.
        split; [exact I|]. rewrite ?Eb, ?app_nil_r in P. exact P.
      * destruct RF as [_ RF]. split; [discriminate|]. split; [|discriminate]. intros He. inversion He; subst. rewrite ?Eb in RF. apply RF. reflexivity.
      * contradiction.
    + unfold sample_drain. rewrite splitN_take_drop. rewrite Eb.
      split; [discriminate|]. split; [discriminate|]. intros _. cbn [s_handed s_shown snd sr_buf sr_dec].
      destruct I as (k1 & Hd1 & E1). split.
      * exists k1. cbn [sr_dec sr_buf]. split; [exact Hd1|]. rewrite <- app_assoc, take_drop, <- Eb. exact E1.
      * rewrite ?Eb in P. rewrite <- (take_drop n (b0 :: btl)) in P. rewrite app_assoc in P.
        destruct P as [q Pq]. exists (dropN n (b0 :: btl) ++ q). rewrite Pq, <- !app_assoc. reflexivity.
  - (* fill_buf *)
    unfold sample_fill_buf. destruct (sr_buf r) as [|b0 btl] eqn:Eb.
    + pose proof (sample_refill_at D r I) as RF. destruct (sample_refill F r) as [r1 [[|]|e|p]].
      * destruct RF as [I1 _]. split; [discriminate|]. split; [discriminate|]. intros _. cbn [s_handed s_shown snd]. rewrite app_nil_r.
        split; [exact I1|apply (SI_prefix D r1 I1)].
      * subst r1. split; [discriminate|]. split; [discriminate|]. intros _. cbn [s_handed s_shown snd]. rewrite app_nil_r.
        split; [exact I|]. rewrite ?Eb, ?app_nil_r in P. exact P.
      * destruct RF as [_ RF]. split; [discriminate|]. split; [|discriminate]. intros He. inversion He; subst. rewrite ?Eb in RF. apply RF. reflexivity.
      * contradiction.
    + split; [discriminate|]. split; [discriminate|]. intros _. cbn [s_handed s_shown snd]. rewrite app_nil_r.
      split; [exact I|]. rewrite ?Eb in P. exact P.
  - (* consume *)
    unfold sample_consume. apply N.leb_le in Hk. rewrite Hk.
    split; [discriminate|]. split; [discriminate|]. intros _. cbn [s_handed s_shown snd sr_buf sr_dec]. rewrite app_nil_r.
    destruct I as (k1 & Hd1 & E1). split.
    + exists k1. cbn [sr_dec sr_buf]. split; [exact Hd1|]. rewrite <- app_assoc, take_drop. exact E1.
    + destruct P as [q Pq]. exists (sr_buf r ++ q). rewrite Pq, <- app_assoc. reflexivity.
  - (* next *)
    unfold sample_next. destruct (sr_buf r) as [|b0 btl] eqn:Eb.
    + pose proof (sample_refill_at D r I) as RF. destruct (sample_refill F r) as [r1 [[|]|e|p]].
      * destruct RF as [I1 _]. destruct (sr_buf r1) as [|x xs] eqn:E1.
        -- split; [discriminate|]. split; [discriminate|]. intros _. cbn [s_handed s_shown snd]. rewrite app_nil_r.
           split; [exact I1|]. pose proof (SI_prefix D r1 I1) as P1. rewrite E1, app_nil_r in P1. exact P1.
        -- split; [discriminate|]. split; [discriminate|]. intros _. cbn [s_handed s_shown snd].
           pose proof (SI_prefix D r1 I1) as P1. rewrite E1 in P1. destruct I1 as (k1 & Hd1 & EE). split.
           ++ exists k1. cbn [sr_dec sr_buf]. split; [exact Hd1|]. rewrite <- app_assoc. cbn [app]. rewrite <- E1. exact EE.
           ++ destruct P1 as [q Pq]. exists (xs ++ q). rewrite Pq, <- !app_assoc. reflexivity.
      * subst r1. split; [discriminate|]. split; [discriminate|]. intros _. cbn [s_handed s_shown snd]. rewrite app_nil_r.
        split; [exact I|]. rewrite ?Eb, ?app_nil_r in P. exact P.
      * destruct RF as [_ RF]. split; [discriminate|]. split; [|discriminate]. intros He. inversion He; subst. rewrite ?Eb in RF. apply RF. reflexivity.
      * contradiction.
    + split; [discriminate|]. split; [discriminate|]. intros _. cbn [s_handed s_shown snd].
      rewrite ?Eb in P. destruct I as (k1 & Hd1 & EE). split.
      * exists k1. cbn [sr_dec sr_buf]. split; [exact Hd1|]. rewrite <- app_assoc. cbn [app]. rewrite <- Eb. exact EE.
      * destruct P as [q Pq]. exists (btl ++ q). rewrite Pq, <- !app_assoc. reflexivity.
Qed.

Definition s_delivered (tr : trace sample_reader sop) : list Z := concat (map s_handed tr).
Definition s_consume_ok (x : sample_reader * sop * out) : Prop :=
  match x with (r, SConsume k, _) => k <= lenN (sr_buf r) | _ => True end.

(* whole histories, up to and including the first failing call *)
Theorem damaged_sample_history : forall ops r D,
  SI D r -> Forall sop_seek_free ops -> Forall s_consume_ok (snd (run_from (sample_step F) r ops)) ->
  forall pre x post, snd (run_from (sample_step F) r ops) = pre ++ x :: post ->
    Forall (fun y => failed (snd y) = false) pre ->
    prefix (D ++ s_delivered pre ++ s_shown x) gdata /\
    (forall p, snd x <> OPanic p) /\
    (snd x = OErr ECrc16 -> D ++ s_delivered pre ++ sr_buf (fst (fst x)) = gdata).
Proof.
  induction ops as [|op ops IH]; intros r D I Hs Hc pre x post Htr Hpre.
  - cbn in Htr. destruct pre; discriminate.
  - cbn [run_from] in Htr, Hc. inversion Hs as [|? ? Hop Hs']; subst.
    pose proof (sample_step_damaged D r op I Hop) as St.
    destruct (sample_step F r op) as [r' o] eqn:Es.
    destruct (run_from (sample_step F) r' ops) as [rf tr] eqn:Er. cbn [snd] in Htr, Hc.
    inversion Hc as [|? ? Hc0 Hc']; subst.
    assert (Hk : match op with SConsume k => k <= lenN (sr_buf r) | _ => True end) by (destruct op; exact Hc0 || exact I).
    specialize (St Hk). destruct St as (NoP & Crc & Go).
    destruct pre as [|y pre].
    + cbn [app] in Htr. inversion Htr; subst x post. cbn [s_delivered map concat app snd fst].
      split.
      * destruct (failed o) eqn:Fo.
        -- assert (Es0 : s_shown (r, op, o) = []) by (destruct o; try discriminate; reflexivity).
           rewrite Es0, app_nil_r. destruct (SI_prefix D r I) as [q Pq]. exists (sr_buf r ++ q). rewrite Pq, <- app_assoc. reflexivity.
        -- apply Go. reflexivity.
      * split; [exact NoP|exact Crc].
    + cbn [app] in Htr. inversion Htr; subst y. inversion Hpre as [|? ? Hy Hpre']; subst. cbn [snd] in Hy.
      destruct (Go Hy) as [I' _].
      assert (Er' : snd (run_from (sample_step F) r' ops) = pre ++ x :: post) by (rewrite Er; cbn [snd]; congruence).
      assert (Hc'' : Forall s_consume_ok (snd (run_from (sample_step F) r' ops))) by (rewrite Er; exact Hc').
      specialize (IH r' (D ++ s_handed (r, op, o)) I' Hs' Hc'' pre x post Er' Hpre').
      unfold s_delivered in *. cbn [map concat]. rewrite <- !app_assoc in *. exact IH.
Qed.

(* ================================================================== FlacChannelReader, seen through channel c *)
Variable c : nat.
Hypothesis Hc : (c < N.to_nat (f_channels F))%nat.
Hypothesis Hrev : f_rev F = Repaired.

Definition gchan : list Z := cdata c (map SFrame good).

Definition c_view (r : chan_reader) : list Z := dropN (cr_consumed r) (nth c (d_buf (cr_dec r)) []).
Definition c_handed (x : chan_reader * cop * out) : list Z :=
  match x with
  | (r, CConsume k, OUnit) => takeN k (c_view r)
  | _ => []
  end.
Definition c_shown (x : chan_reader * cop * out) : list Z :=
  match snd x with OChans cs => nth c cs [] | _ => [] end.

Definition CI (D : list Z) (r : chan_reader) : Prop :=
  exists k, dec_at (cr_dec r) k /\
    (d_buf (cr_dec r) = [] \/ wf_frame (f_channels F) (d_buf (cr_dec r))) /\
    pcm_frames (d_buf (cr_dec r)) < U64 /\
    cr_consumed r <= pcm_frames (d_buf (cr_dec r)) /\
    D ++ c_view r = cdata c (map SFrame (firstn k good)).

Lemma gchan_split k : gchan = cdata c (map SFrame (firstn k good)) ++ cdata c (map SFrame (skipn k good)).
Proof. unfold gchan. rewrite <- (firstn_skipn k good) at 1. rewrite map_app, cdata_app. reflexivity. Qed.

Lemma CI_prefix D r : CI D r -> prefix (D ++ c_view r) gchan.
Proof. intros (k & _ & _ & _ & _ & E). rewrite E, (gchan_split k). apply prefix_app. Qed.

Lemma cdata_firstn_S k f tl : skipn k good = f :: tl ->
  cdata c (map SFrame (firstn (S k) good)) = cdata c (map SFrame (firstn k good)) ++ nth c f [].
Proof.
  intros Es. destruct (skipn_cons_step k good f tl Es) as (E1 & _ & _).
  rewrite E1, map_app, cdata_app. cbn [map]. rewrite cdata_cons. unfold cdata at 3. cbn. rewrite app_nil_r. reflexivity.
Qed.

Lemma nth_map_dropN k (cs : list (list Z)) : nth c (map (dropN k) cs) [] = dropN k (nth c cs []).
Proof. rewrite <- (dropN_nil k) at 1. apply map_nth. Qed.

Lemma nth_repeat_nil_gen : forall (m i : nat), nth i (repeat (@nil Z) m) [] = [].
Proof. induction m as [|m IH]; intros [|i]; cbn; auto. Qed.
Lemma nth_repeat_nil n : nth c (repeatN (@nil Z) n) [] = [].
Proof. unfold repeatN. apply nth_repeat_nil_gen. Qed.

Definition cop_seek_free (o : cop) : Prop := match o with CSeek _ => False | _ => True end.

Lemma chan_step_damaged D r op : CI D r -> cop_seek_free op ->
  (match op with CConsume k => k <= pcm_frames (d_buf (cr_dec r)) - cr_consumed r | _ => True end) ->
  let '(r', o) := chan_step F r op in
  (forall p, o <> OPanic p) /\
  (o = OErr ECrc16 -> D ++ c_view r = gchan) /\
  (failed o = false ->
     CI (D ++ c_handed (r, op, o)) r' /\ prefix (D ++ c_shown (r, op, o)) gchan).
Proof.
  intros I Hop Hk. pose proof (CI_prefix D r I) as P.
  destruct I as (k & Hd & Hbuf & Hb64 & Hcons & E).
  destruct op as [|kk|s]; cbn [chan_step]; try contradiction.
  - (* fill_buf *)
    unfold chan_fill_buf. destruct (N.ltb_spec (cr_consumed r) (pcm_frames (d_buf (cr_dec r)))) as [Hlt|Hge].
    + destruct Hbuf as [Hnil|Wf]; [rewrite Hnil in Hlt; cbn in Hlt; lia|].
      rewrite (channels_ok _ _ Wf).
      split; [discriminate|]. split; [discriminate|]. intros _. cbn [c_handed c_shown snd]. rewrite app_nil_r, nth_map_dropN.
      split; [|exact P]. exists k. split; [exact Hd|]. split; [right; exact Wf|]. split; [exact Hb64|]. split; [exact Hcons|exact E].
    + assert (Ev : c_view r = []).
      { unfold c_view. apply dropN_all. destruct Hbuf as [Hnil|Wf]; [rewrite Hnil; destruct c; cbn; lia|].
        rewrite (nth_chan_len _ _ c Wf Hc). exact Hge. }
      rewrite Ev, app_nil_r in E, P. rewrite Hrev.
      pose proof (read_frame_at _ k Hd) as RF.
      destruct (read_frame F (cr_dec r)) as [d' [[f|]|e|p]].
      * destruct RF as (tl & Es & Hd' & Wf & Eb). rewrite (channels_ok _ _ Wf).
        split; [discriminate|]. split; [discriminate|]. intros _. cbn [c_handed c_shown snd]. rewrite app_nil_r.
        assert (Hv : c_view {| cr_dec := d'; cr_consumed := 0 |} = nth c f []).
        { unfold c_view. cbn [cr_dec cr_consumed]. rewrite Eb. apply dropN_0. }
        assert (Hf64 : pcm_frames f < U64).
        { destruct Hd' as (_ & _ & Hc'). pose proof (sumlen_firstn_le good (S k)) as L.
          destruct (skipn_cons_step k good f tl Es) as (E1 & _ & _). rewrite E1, map_app, sumlen_app in L.
          cbn [map sumlen slot_frame] in L. lia. }
        split.
        -- exists (S k). cbn [cr_dec cr_consumed]. split; [exact Hd'|]. rewrite Eb. split; [right; exact Wf|].
           split; [exact Hf64|]. split; [lia|]. rewrite Hv, E. symmetry. apply (cdata_firstn_S k f tl Es).
        -- rewrite (gchan_split (S k)), (cdata_firstn_S k f tl Es), <- E. apply prefix_app.
      * subst d'. split; [discriminate|]. split; [discriminate|]. intros _. cbn [c_handed c_shown snd]. rewrite app_nil_r, nth_repeat_nil, app_nil_r.
        split; [|exact P]. exists k.
        replace {| cr_dec := cr_dec r; cr_consumed := cr_consumed r |} with r by (destruct r; reflexivity).
        split; [exact Hd|]. split; [exact Hbuf|]. split; [exact Hb64|]. split; [exact Hcons|].
        rewrite Ev, app_nil_r. exact E.
      * split; [discriminate|]. split; [|discriminate]. intros He. inversion He; subst e. specialize (RF eq_refl). subst k.
        rewrite firstn_all in E. rewrite Ev, app_nil_r. exact E.
      * contradiction.
  - (* consume *)
    unfold chan_consume.
    assert (Hadd : cr_consumed r + kk < U64) by lia.
    rewrite (u64_add_ok _ _ _ Hadd).
    split; [discriminate|]. split; [discriminate|]. intros _. cbn [c_handed c_shown snd]. rewrite app_nil_r.
    split.
    + exists k. cbn [cr_dec cr_consumed]. split; [exact Hd|]. split; [exact Hbuf|]. split; [exact Hb64|]. split; [lia|].
      unfold c_view in *. cbn [cr_dec cr_consumed]. rewrite dropN_add, <- app_assoc, take_drop. exact E.
    + destruct P as [q Pq]. exists (c_view r ++ q). rewrite Pq, <- app_assoc. reflexivity.
Qed.

Definition c_delivered (tr : trace chan_reader cop) : list Z := concat (map c_handed tr).
Definition c_consume_ok (x : chan_reader * cop * out) : Prop :=
  match x with (r, CConsume k, _) => k <= pcm_frames (d_buf (cr_dec r)) - cr_consumed r | _ => True end.

Theorem damaged_chan_history : forall ops r D,
  CI D r -> Forall cop_seek_free ops -> Forall c_consume_ok (snd (run_from (chan_step F) r ops)) ->
  forall pre x post, snd (run_from (chan_step F) r ops) = pre ++ x :: post ->
    Forall (fun y => failed (snd y) = false) pre ->
    prefix (D ++ c_delivered pre ++ c_shown x) gchan /\
    (forall p, snd x <> OPanic p) /\
    (snd x = OErr ECrc16 -> D ++ c_delivered pre ++ c_view (fst (fst x)) = gchan).
Proof.
  induction ops as [|op ops IH]; intros r D I Hs Hcs pre x post Htr Hpre.
  - cbn in Htr. destruct pre; discriminate.
  - cbn [run_from] in Htr, Hcs. inversion Hs as [|? ? Hop Hs']; subst.
    pose proof (chan_step_damaged D r op I Hop) as St.
    destruct (chan_step F r op) as [r' o] eqn:Es.
    destruct (run_from (chan_step F) r' ops) as [rf tr] eqn:Er. cbn [snd] in Htr, Hcs.
    inversion Hcs as [|? ? Hc0 Hc']; subst.
    assert (Hk : match op with CConsume k => k <= pcm_frames (d_buf (cr_dec r)) - cr_consumed r | _ => True end)
      by (destruct op; exact Hc0 || exact I).
    specialize (St Hk). destruct St as (NoP & Crc & Go).
    destruct pre as [|y pre].
    + cbn [app] in Htr. inversion Htr; subst x post. cbn [c_delivered map concat app snd fst].
      split.
      * destruct (failed o) eqn:Fo.
        -- assert (Es0 : c_shown (r, op, o) = []) by (destruct o; try discriminate; reflexivity).
           rewrite Es0, app_nil_r. destruct (CI_prefix D r I) as [q Pq]. exists (c_view r ++ q). rewrite Pq, <- app_assoc. reflexivity.
        -- apply Go. reflexivity.
      * split; [exact NoP|exact Crc].
    + cbn [app] in Htr. inversion Htr; subst y. inversion Hpre as [|? ? Hy Hpre']; subst. cbn [snd] in Hy.
      destruct (Go Hy) as [I' _].
      assert (Er' : snd (run_from (chan_step F) r' ops) = pre ++ x :: post) by (rewrite Er; cbn [snd]; congruence).
      assert (Hc'' : Forall c_consume_ok (snd (run_from (chan_step F) r' ops))) by (rewrite Er; exact Hc').
      specialize (IH r' (D ++ c_handed (r, op, o)) I' Hs' Hc'' pre x post Er' Hpre').
      unfold c_delivered in *. cbn [map concat]. rewrite <- !app_assoc in *. exact IH.
Qed.

(* ================================================================== FlacByteReader *)
Hypothesis Hwidth : 1 <= bytes_per_sample (f_bps F) <= 4.

Definition gbytes : list N := bdata F (map SFrame good).

Definition b_handed (x : byte_reader * bop * out) : list N :=
  match x with
  | (_, BRead _, OBytes xs) => xs
  | (r, BConsume k, OUnit) => takeN k (br_buf r)
  | _ => []
  end.
Definition b_shown (x : byte_reader * bop * out) : list N :=
  match snd x with OBytes xs => xs | _ => [] end.

Definition BI (D : list N) (r : byte_reader) : Prop :=
  exists k, dec_at (br_dec r) k /\ D ++ br_buf r = bdata F (map SFrame (firstn k good)).

Lemma gbytes_split k : gbytes = bdata F (map SFrame (firstn k good)) ++ bdata F (map SFrame (skipn k good)).
Proof. unfold gbytes. rewrite <- (firstn_skipn k good) at 1. rewrite map_app, bdata_app. reflexivity. Qed.

Lemma BI_prefix D r : BI D r -> prefix (D ++ br_buf r) gbytes.
Proof. intros (k & _ & E). rewrite E, (gbytes_split k). apply prefix_app. Qed.

Lemma bdata_firstn_S k f tl : skipn k good = f :: tl ->
  bdata F (map SFrame (firstn (S k) good)) =
  bdata F (map SFrame (firstn k good)) ++ ser (f_endian F) (bytes_per_sample (f_bps F)) (interleave f).
Proof.
  intros Es. destruct (skipn_cons_step k good f tl Es) as (E1 & _ & _).
  rewrite E1, map_app, bdata_app. cbn [map]. rewrite bdata_cons. unfold bdata at 3. cbn. rewrite app_nil_r. reflexivity.
Qed.

(* the refill happens with an empty buffer only *)
Lemma byte_refill_at D r : BI D r -> br_buf r = [] ->
  match byte_refill F r with
  | (r1, Ok true) => BI D r1
  | (r1, Ok false) => r1 = r
  | (r1, Err e) => br_buf r1 = [] /\ (e = ECrc16 -> D = gbytes)
  | (_, Panic _) => False
  end.
Proof.
  intros (k & Hd & E) Eb. rewrite Eb, app_nil_r in E. unfold byte_refill. pose proof (read_frame_at _ k Hd) as RF.
  destruct (read_frame F (br_dec r)) as [d' [[f|]|e|p]].
  - destruct RF as (tl & Es & Hd' & Wf & _). rewrite (to_buf_ok _ _ _ f Hwidth Wf).
    exists (S k). cbn [br_dec br_buf]. split; [exact Hd'|]. rewrite E. symmetry. apply (bdata_firstn_S k f tl Es).
  - subst d'. destruct r; reflexivity.
  - cbn [br_buf]. split; [exact Eb|]. intros He. specialize (RF He). subst k. rewrite firstn_all in E. exact E.
  - exact RF.
Qed.

Definition bop_seek_free (o : bop) : Prop := match o with BSeek _ => False | _ => True end.

Lemma byte_step_damaged D r op : BI D r -> bop_seek_free op ->
  (match op with BConsume k => k <= lenN (br_buf r) | _ => True end) ->
  let '(r', o) := byte_step F r op in
  (forall p, o <> OPanic p) /\
  (o = OErr ECrc16 -> D ++ br_buf r = gbytes) /\
  (failed o = false ->
     BI (D ++ b_handed (r, op, o)) r' /\ prefix (D ++ b_shown (r, op, o)) gbytes).
Proof.
  intros I Hop Hk. pose proof (BI_prefix D r I) as P.
  destruct op as [n| |k|sf]; cbn [byte_step]; try contradiction.
  - (* read *)
    unfold byte_read. destruct (br_buf r) as [|b0 btl] eqn:Eb.
    + pose proof (byte_refill_at D r I Eb) as RF. destruct (byte_refill F r) as [r1 [[|]|e|p]].
      * unfold vecdeque_read. rewrite splitN_take_drop.
        split; [discriminate|]. split; [discriminate|]. intros _. cbn [b_handed b_shown snd br_buf br_dec].
        pose proof (BI_prefix D r1 RF) as P1. destruct RF as (k1 & Hd1 & E1). split.
        -- exists k1. cbn [br_dec br_buf]. split; [exact Hd1|]. rewrite <- app_assoc, take_drop. exact E1.
        -- rewrite <- (take_drop n (br_buf r1)) in P1. rewrite app_assoc in P1.
           destruct P1 as [q Pq]. exists (dropN n (br_buf r1) ++ q). rewrite Pq, <- !app_assoc. reflexivity.
      * subst r1. split; [discriminate|]. split; [discriminate|]. intros _. cbn [b_handed b_shown snd]. rewrite app_nil_r.
        split; [exact I|]. rewrite ?Eb, ?app_nil_r in P. exact P.
      * destruct RF as [_ RF]. split; [discriminate|]. split; [|discriminate]. intros He. inversion He; subst.
        rewrite app_nil_r. apply RF. reflexivity.
      * contradiction.
    + unfold vecdeque_read. rewrite splitN_take_drop. rewrite Eb.
      split; [discriminate|]. split; [discriminate|]. intros _. cbn [b_handed b_shown snd br_buf br_dec].
      destruct I as (k1 & Hd1 & E1). split.
      * exists k1. cbn [br_dec br_buf]. split; [exact Hd1|]. rewrite <- app_assoc, take_drop, <- Eb. exact E1.
      * rewrite ?Eb in P. rewrite <- (take_drop n (b0 :: btl)) in P. rewrite app_assoc in P.
        destruct P as [q Pq]. exists (dropN n (b0 :: btl) ++ q). rewrite Pq, <- !app_assoc. reflexivity.
  - (* fill_buf *)
    unfold byte_fill_buf. destruct (br_buf r) as [|b0 btl] eqn:Eb.
    + pose proof (byte_refill_at D r I Eb) as RF. destruct (byte_refill F r) as [r1 [[|]|e|p]].
      * split; [discriminate|]. split; [discriminate|]. intros _. cbn [b_handed b_shown snd]. rewrite app_nil_r.
        split; [exact RF|apply (BI_prefix D r1 RF)].
      * subst r1. split; [discriminate|]. split; [discriminate|]. intros _. cbn [b_handed b_shown snd]. rewrite app_nil_r.
        split; [exact I|]. rewrite ?Eb, ?app_nil_r in P. exact P.
      * destruct RF as [_ RF]. split; [discriminate|]. split; [|discriminate]. intros He. inversion He; subst.
        rewrite app_nil_r. apply RF. reflexivity.
      * contradiction.
    + split; [discriminate|]. split; [discriminate|]. intros _. cbn [b_handed b_shown snd]. rewrite app_nil_r.
      split; [exact I|]. rewrite ?Eb in P. exact P.
  - (* consume *)
    unfold byte_consume. apply N.leb_le in Hk. rewrite Hk.
    split; [discriminate|]. split; [discriminate|]. intros _. cbn [b_handed b_shown snd br_buf br_dec]. rewrite app_nil_r.
    destruct I as (k1 & Hd1 & E1). split.
    + exists k1. cbn [br_dec br_buf]. split; [exact Hd1|]. rewrite <- app_assoc, take_drop. exact E1.
    + destruct P as [q Pq]. exists (br_buf r ++ q). rewrite Pq, <- app_assoc. reflexivity.
Qed.

Definition b_delivered (tr : trace byte_reader bop) : list N := concat (map b_handed tr).
Definition b_consume_ok (x : byte_reader * bop * out) : Prop :=
  match x with (r, BConsume k, _) => k <= lenN (br_buf r) | _ => True end.

Theorem damaged_byte_history : forall ops r D,
  BI D r -> Forall bop_seek_free ops -> Forall b_consume_ok (snd (run_from (byte_step F) r ops)) ->
  forall pre x post, snd (run_from (byte_step F) r ops) = pre ++ x :: post ->
    Forall (fun y => failed (snd y) = false) pre ->
    prefix (D ++ b_delivered pre ++ b_shown x) gbytes /\
    (forall p, snd x <> OPanic p) /\
    (snd x = OErr ECrc16 -> D ++ b_delivered pre ++ br_buf (fst (fst x)) = gbytes).
Proof.
  induction ops as [|op ops IH]; intros r D I Hs Hcb pre x post Htr Hpre.
  - cbn in Htr. destruct pre; discriminate.
  - cbn [run_from] in Htr, Hcb. inversion Hs as [|? ? Hop Hs']; subst.
    pose proof (byte_step_damaged D r op I Hop) as St.
    destruct (byte_step F r op) as [r' o] eqn:Es.
    destruct (run_from (byte_step F) r' ops) as [rf tr] eqn:Er. cbn [snd] in Htr, Hcb.
    inversion Hcb as [|? ? Hc0 Hc']; subst.
    assert (Hk : match op with BConsume k => k <= lenN (br_buf r) | _ => True end) by (destruct op; exact Hc0 || exact I).
    specialize (St Hk). destruct St as (NoP & Crc & Go).
    destruct pre as [|y pre].
    + cbn [app] in Htr. inversion Htr; subst x post. cbn [b_delivered map concat app snd fst].
      split.
      * destruct (failed o) eqn:Fo.
        -- assert (Es0 : b_shown (r, op, o) = []) by (destruct o; try discriminate; reflexivity).
           rewrite Es0, app_nil_r. destruct (BI_prefix D r I) as [q Pq]. exists (br_buf r ++ q). rewrite Pq, <- app_assoc. reflexivity.
        -- apply Go. reflexivity.
      * split; [exact NoP|exact Crc].
    + cbn [app] in Htr. inversion Htr; subst y. inversion Hpre as [|? ? Hy Hpre']; subst. cbn [snd] in Hy.
      destruct (Go Hy) as [I' _].
      assert (Er' : snd (run_from (byte_step F) r' ops) = pre ++ x :: post) by (rewrite Er; cbn [snd]; congruence).
      assert (Hc'' : Forall b_consume_ok (snd (run_from (byte_step F) r' ops))) by (rewrite Er; exact Hc').
      specialize (IH r' (D ++ b_handed (r, op, o)) I' Hs' Hc'' pre x post Er' Hpre').
      unfold b_delivered in *. cbn [map concat]. rewrite <- !app_assoc in *. exact IH.
Qed.

End Damaged.
