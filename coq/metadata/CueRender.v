(* metadata/CueRender.v — the well-formed side of cue sheet import (C20): an abstract
   syntax of a CD-DA cue sheet, the text lines that express it (with the spelling variants
   the parser accepts), the decoration of lines with white space and line endings, and the
   block the import is expected to produce.  All text here is ASCII (code point = byte):
   that is enough for the well-formed side; arbitrary Unicode is C12's business.
   No proofs in this file. *)
From FlacMeta Require Export Cue Accessors.
Open Scope N_scope.

(* ---- abstract syntax: positions as written, absolute, in minutes / seconds / CD frames *)
Record cue_index := mkCI { ci_num : N; ci_mm : N; ci_ss : N; ci_ff : N }.
Record cue_track := mkCT {
  ct_num : N; ct_pre : bool;
  ct_isrc : option (list N);          (* 12 characters: 2 letters, 3 alphanumerics, 7 digits *)
  ct_indices : list cue_index }.
Record cue := mkCue {
  cu_catalog : option (list N);       (* 13 digits *)
  cu_tracks : list cue_track }.

Definition ci_frames (i : cue_index) : N := ci_ff i + 75 * ci_ss i + 4500 * ci_mm i.
Definition ci_samples (i : cue_index) : N := ci_frames i * 588.

(* ---- spelling variants that do not change the meaning *)
Record style := mkStyle {
  st_pad_track : bool;        (* TRACK 01 / TRACK 1 *)
  st_pad_index : bool;        (* INDEX 01 / INDEX 1 *)
  st_pad_time : bool;         (* 03:00:02 / 3:0:2 *)
  st_quote_catalog : bool;    (* CATALOG "0123456789012" *)
  st_quote_isrc : bool;       (* ISRC "AB1231212345" *)
  st_dash_isrc : bool;        (* ISRC AB-123-12-12345 *)
  st_flags_first : bool;      (* FLAGS before ISRC, or after *)
  st_type : list N }.         (* the word after the track number: AUDIO, MODE1/2352, ... *)

Definition num (pad : bool) (n : N) : list N := if pad then dec02 n else dec n.
Definition quoted (q : bool) (s : list N) : list N := if q then 34 :: s ++ [34] else s.
Definition dashed (d : bool) (s : list N) : list N :=
  if d then firstn 2 s ++ [45] ++ firstn 3 (skipn 2 s) ++ [45] ++ firstn 2 (skipn 5 s) ++ [45] ++ skipn 7 s else s.

Definition time_text (st : style) (i : cue_index) : list N :=
  num (st_pad_time st) (ci_mm i) ++ [58] ++ num (st_pad_time st) (ci_ss i) ++ [58] ++ num (st_pad_time st) (ci_ff i).

Definition index_line (st : style) (i : cue_index) : list N :=
  kw_INDEX ++ [32] ++ num (st_pad_index st) (ci_num i) ++ [32] ++ time_text st i.
Definition flags_line : list N := kw_FLAGS ++ [32] ++ kw_PRE.
Definition isrc_line (st : style) (s : list N) : list N :=
  kw_ISRC ++ [32] ++ quoted (st_quote_isrc st) (dashed (st_dash_isrc st) s).
Definition track_line (st : style) (t : cue_track) : list N :=
  kw_TRACK ++ [32] ++ num (st_pad_track st) (ct_num t) ++ [32] ++ st_type st.
Definition catalog_line (st : style) (d : list N) : list N :=
  kw_CATALOG ++ [32] ++ quoted (st_quote_catalog st) d.

Definition track_lines (st : style) (t : cue_track) : list (list N) :=
  let fl := if ct_pre t then [flags_line] else [] in
  let il := match ct_isrc t with Some s => [isrc_line st s] | None => [] end in
  track_line st t :: (if st_flags_first st then fl ++ il else il ++ fl) ++ map (index_line st) (ct_indices t).

(* the significant content of each line of the text, in order *)
Definition cue_lines (st : style) (c : cue) : list (list N) :=
  match cu_catalog c with Some d => [catalog_line st d] | None => [] end ++
  flat_map (track_lines st) (cu_tracks c).

(* a trimmed line the parser acts on: its first word is one of the five keywords (FLAGS only
   in the exact form FLAGS PRE); every other line (REM, FILE, TITLE, PERFORMER, blank, ...)
   is skipped by the parser wherever it stands *)
Definition significant (l : list N) : bool :=
  let '(kw, rest) := match split_once 32 l with Some p => p | None => (l, []) end in
  list_eqb kw kw_CATALOG || list_eqb kw kw_TRACK || list_eqb kw kw_INDEX || list_eqb kw kw_ISRC ||
  (list_eqb kw kw_FLAGS && list_eqb rest kw_PRE).

Fixpoint lines_eqb (a b : list (list N)) : bool :=
  match a, b with
  | [], [] => true
  | x :: a', y :: b' => list_eqb x y && lines_eqb a' b'
  | _, _ => false
  end.

(* the text says what the cue says: after trimming every line and dropping the lines the
   parser skips, the lines are exactly the cue's lines in one of the accepted spellings *)
Definition cue_text_matches (st : style) (c : cue) (text : list N) : bool :=
  lines_eqb (filter significant (map trim (lines text))) (cue_lines st c).

(* ---- decoration: indentation, trailing blanks, line endings *)
Record deco := mkDeco { d_indent : list N; d_trail : list N; d_crlf : bool }.
Definition decorate_line (dl : deco * list N) : list N :=
  d_indent (fst dl) ++ snd dl ++ d_trail (fst dl) ++ (if d_crlf (fst dl) then [13; 10] else [10]).
(* the text: every content line with its own decoration *)
Definition render (decos : list deco) (ls : list (list N)) : list N :=
  flat_map decorate_line (combine decos ls).

(* ---- the block the import must produce, mod.rs:3269-3281 *)
Definition index_of (track_off : N) (i : cue_index) : index := mkIx (ci_samples i - track_off) (ci_num i).
Definition track_of (t : cue_track) : option track :=
  match ct_indices t with
  | [] => None
  | i0 :: _ =>
    let off := ci_samples i0 in
    match indexvec_try_from (map (index_of off) (ct_indices t)) with
    | Ok iv => Some (mkTrack off (ct_num t) (match ct_isrc t with Some s => IsrcStr s | None => IsrcNone end)
                             false (ct_pre t) iv)
    | _ => None
    end
  end.
Fixpoint tracks_of (l : list cue_track) : option (list track) :=
  match l with
  | [] => Some []
  | t :: r => match track_of t, tracks_of r with Some x, Some y => Some (x :: y) | _, _ => None end
  end.
Definition block_of (c : cue) (total : N) : option cuesheet :=
  match tracks_of (cu_tracks c) with
  | Some ts => Some (CueCDDA (cu_catalog c) LEAD_IN ts (mkLO total IsrcNone false false))
  | None => None
  end.

(* ---- well-formedness *)
Definition is_ascii_ws_free (s : list N) : Prop := Forall (fun c => is_ws c = false /\ c <> 10) s.

Definition wf_index (i : cue_index) : Prop := ci_ss i < 60 /\ ci_ff i < 75 /\ ci_samples i <= U64_MAX.

(* index points after the first of a track: later position, next number *)
Fixpoint index_chain (prev_frames prev_num : N) (l : list cue_index) : Prop :=
  match l with
  | [] => True
  | i :: r => prev_frames < ci_frames i /\ ci_num i = prev_num + 1 /\ index_chain (ci_frames i) (ci_num i) r
  end.

Definition wf_track (t : cue_track) : Prop :=
  Forall wf_index (ct_indices t) /\
  match ct_indices t with
  | [] => False
  | i0 :: r => (ci_num i0 = 1 \/ (ci_num i0 = 0 /\ r <> [])) /\     (* INDEX 01 is present *)
               index_chain (ci_frames i0) (ci_num i0) r /\
               lenN (ct_indices t) <= 100
  end /\
  match ct_isrc t with Some s => wf_isrc s | None => True end.

Definition last_frames (t : cue_track) : N :=
  match rev (ct_indices t) with i :: _ => ci_frames i | [] => 0 end.

(* tracks numbered num, num+1, ...; the first index of the sheet at 00:00:00, every later
   track starting after the last index of the one before *)
Fixpoint sheet_ok (num : N) (prev : option N) (ts : list cue_track) : Prop :=
  match ts with
  | [] => True
  | t :: r =>
    ct_num t = num /\ wf_track t /\
    match ct_indices t with
    | [] => False
    | i0 :: _ => match prev with None => ci_frames i0 = 0 | Some p => p < ci_frames i0 end
    end /\
    sheet_ok (num + 1) (Some (last_frames t)) r
  end.

Definition wf_cue (c : cue) : Prop :=
  cu_tracks c <> [] /\ lenN (cu_tracks c) <= 99 /\
  sheet_ok 1 None (cu_tracks c) /\
  match cu_catalog c with Some d => lenN d = 13 /\ forallb is_digit d = true | None => True end.

(* every index position lies before the end of the stream *)
Definition before_end (c : cue) (total : N) : Prop :=
  Forall (fun t => Forall (fun i => ci_samples i < total) (ct_indices t)) (cu_tracks c).

Definition wf_style (st : style) : Prop :=
  st_type st <> [] /\ Forall (fun c => is_ws c = false /\ c <> 10) (st_type st).
Definition wf_deco (d : deco) : Prop :=
  Forall (fun c => is_ws c = true /\ c <> 10) (d_indent d) /\ Forall (fun c => is_ws c = true /\ c <> 10) (d_trail d).

