(* readers/Byte_proofs.v — FlacByteReader: the invariant tying buffer + decoder position to the
   logical byte position, and every call (read, fill_buf, consume, seek) refines the abstract
   cursor over pcm_bytes. *)
From FlacReaders Require Import Spec Lists_proofs Frame_proofs Core_proofs.
Open Scope N_scope.

Section Byte.
  Variable F : file.
  Hypothesis V : valid_file F.
  Notation data := (pcm_bytes F).
  Notation bpf := (bytes_per_pcm_frame F).
  Notation nch := (f_channels F).
  Notation serf := (fun f => ser (f_endian F) (bytes_per_sample (f_bps F)) (interleave f)).

  (* buffered bytes ++ bytes of the frames still to come = the stream from the logical position:
     the slots split into those decoded (pre) and those to come; the bytes of pre are those already
     handed out (done) followed by the buffer *)
  Definition BInv (r : byte_reader) : Prop :=
    exists pre done, f_slots F = pre ++ d_rest (br_dec r) /\ d_cur (br_dec r) = sumlen pre /\
                     bdata F pre = done ++ br_buf r.

  Lemma binv_new : BInv (byte_new F).
  Proof. exists [], []. cbn. auto. Qed.

  Lemma binv_facts r : BInv r -> exists done,
    data = done ++ br_buf r ++ bdata F (d_rest (br_dec r)) /\
    bpos F r = lenN done /\ lenN done + lenN (br_buf r) = d_cur (br_dec r) * bpf.
  Proof.
    intros (pre & done & E & Ec & Eb). exists done.
    assert (Hl : lenN (bdata F pre) = sumlen pre * bpf).
    { apply bdata_len; [apply (v_width F V) | apply (split_good F V _ _ E)]. }
    rewrite Eb, lenN_app in Hl.
    split; [unfold pcm_bytes; rewrite E at 1; now rewrite bdata_app, Eb, <- app_assoc|].
    unfold bpos. rewrite Ec. lia.
  Qed.

  Lemma data_len : lenN data = total_frames F * bpf.
  Proof. apply bdata_len; [apply (v_width F V) | apply (v_good F V)]. Qed.

  Lemma serf_len f : wf_frame nch f -> lenN (serf f) = pcm_frames f * bpf.
  Proof.
    intros Hf. cbn beta. rewrite ser_len by apply (v_width F V). rewrite (interleave_len nch f Hf).
    unfold bytes_per_pcm_frame. lia.
  Qed.

  Lemma serf_nonempty f : wf_frame nch f -> serf f <> [].
  Proof.
    intros Hf E. pose proof (serf_len f Hf) as H. cbn beta in *. rewrite E in H. cbn in H.
    destruct Hf as (_ & Hp & _). pose proof (bpf_pos F V). nia.
  Qed.

  (* the refill done by read / fill_buf when the buffer is empty *)
  Lemma byte_refill_spec r : BInv r -> br_buf r = [] ->
    (d_rest (br_dec r) = [] /\ byte_refill F r = (r, Ok false)) \/
    (exists f rest r1, d_rest (br_dec r) = SFrame f :: rest /\ wf_frame nch f /\
        byte_refill F r = (r1, Ok true) /\ BInv r1 /\ br_buf r1 = serf f /\
        d_rest (br_dec r1) = rest /\ bpos F r1 = bpos F r).
  Proof.
    intros I Eb. destruct I as (pre & done & E & Ec & Ed).
    destruct (d_rest (br_dec r)) as [|s rest] eqn:Er.
    - left. split; [reflexivity|]. unfold byte_refill. rewrite (read_frame_none F V _ pre E Er Ec).
      destruct r; reflexivity.
    - right. destruct (read_frame_some F V _ pre s rest E Er Ec) as (f & -> & Hf & Hrf).
      exists f, rest. eexists. split; [reflexivity|]. split; [exact Hf|].
      unfold byte_refill. rewrite Hrf. rewrite (to_buf_ok _ _ nch f (v_width F V) Hf).
      split; [reflexivity|]. cbn [br_dec br_buf d_rest d_cur].
      assert (I1 : BInv {| br_dec := {| d_rest := rest; d_cur := sumlen pre + pcm_frames f; d_buf := f |};
                           br_buf := serf f |}).
      { exists (pre ++ [SFrame f]), done. cbn [br_dec br_buf d_rest d_cur].
        split; [now rewrite <- app_assoc|]. split; [rewrite sumlen_app; cbn [sumlen slot_frame]; lia|].
        rewrite bdata_app, Ed, Eb, app_nil_r. f_equal. rewrite bdata_cons. unfold bdata, sdata. cbn.
        now rewrite app_nil_r. }
      split; [exact I1|]. split; [reflexivity|]. split; [reflexivity|].
      destruct (binv_facts _ I1) as (done1 & _ & -> & H1).
      assert (I0 : BInv r) by (exists pre, done; rewrite Er; auto).
      destruct (binv_facts _ I0) as (done0 & _ & -> & H0).
      cbn [br_dec br_buf d_cur] in H1. rewrite Eb, Ec in H0. cbn in H0.
      rewrite (serf_len f Hf) in H1. lia.
  Qed.

  (* reading n bytes out of a non-empty (or final) buffer *)
  Lemma vecdeque_read_spec r n : BInv r ->
    let (r', o) := vecdeque_read r n in
    BInv r' /\ o = OBytes (takeN n (br_buf r)) /\ bpos F r' = bpos F r + lenN (takeN n (br_buf r)) /\
    prefix (takeN n (br_buf r)) (dropN (bpos F r) data).
  Proof.
    intros I. unfold vecdeque_read. rewrite splitN_take_drop.
    destruct I as (pre & done & E & Ec & Ed).
    assert (I0 : BInv r) by (exists pre, done; auto).
    assert (I1 : BInv {| br_dec := br_dec r; br_buf := dropN n (br_buf r) |}).
    { exists pre, (done ++ takeN n (br_buf r)). cbn [br_dec br_buf].
      split; [exact E|]. split; [exact Ec|]. now rewrite <- app_assoc, take_drop. }
    split; [exact I1|]. split; [reflexivity|].
    destruct (binv_facts _ I0) as (d0 & Hd0 & P0 & L0). destruct (binv_facts _ I1) as (d1 & Hd1 & P1 & L1).
    cbn [br_dec br_buf] in *. split.
    - rewrite P0, P1. rewrite lenN_dropN in L1. rewrite lenN_takeN. lia.
    - rewrite P0, Hd0, dropN_app_len. rewrite <- (take_drop n (br_buf r)) at 2. rewrite <- app_assoc.
      apply prefix_app.
  Qed.

  Lemma bpos_le r : BInv r -> bpos F r <= lenN data.
  Proof. intros I. destruct (binv_facts _ I) as (d & -> & -> & _). rewrite lenN_app. lia. Qed.

  Lemma at_end r : BInv r -> br_buf r = [] -> d_rest (br_dec r) = [] -> bpos F r = lenN data.
  Proof.
    intros I Eb Er. destruct (binv_facts _ I) as (d & Hd & -> & _). rewrite Hd, Eb, Er. cbn.
    now rewrite app_nil_r.
  Qed.

  Lemma takeN_nonempty {A} n (l : list A) : 0 < n -> l <> [] -> takeN n l <> [].
  Proof.
    intros Hn Hl E. apply (f_equal lenN) in E. rewrite lenN_takeN in E. cbn in E.
    pose proof (lenN_pos l Hl). lia.
  Qed.

  (* ---- read *)
  Lemma byte_read_ok r n : BInv r ->
    BInv (fst (byte_read F r n)) /\ cur_ok data (abs_b F (r, BRead n, snd (byte_read F r n))).
  Proof.
    intros I. pose proof (bpos_le r I) as Hle. unfold cur_ok, abs_b. cbn [e_pos e_op e_out e_pos' byte_step].
    unfold byte_read. destruct (br_buf r) as [|b0 bs] eqn:Eb.
    - destruct (byte_refill_spec r I Eb) as [(Er & ->)|(f & rest & r1 & Er & Hf & -> & I1 & Eb1 & Er1 & P1)].
      + cbn [fst snd abs_out_data bytes_of]. split; [exact I|]. split; [exact Hle|]. split; [exact Hle|].
        split; [apply prefix_nil|]. cbn. split; [lia|]. split; [lia|].
        intros _ Hlt. rewrite (at_end r I Eb Er) in Hlt. lia.
      + pose proof (vecdeque_read_spec r1 n I1) as H. destruct (vecdeque_read r1 n) as [r' o].
        destruct H as (I' & -> & P' & Hpre). cbn [fst snd abs_out_data bytes_of].
        split; [exact I'|]. split; [exact Hle|]. split; [now apply bpos_le|].
        rewrite <- P1. split; [exact Hpre|]. split; [rewrite lenN_takeN; lia|]. split; [exact P'|].
        intros Hn _. apply takeN_nonempty; [exact Hn|]. rewrite Eb1. now apply serf_nonempty.
    - pose proof (vecdeque_read_spec r n I) as H. destruct (vecdeque_read r n) as [r' o].
      destruct H as (I' & -> & P' & Hpre). cbn [fst snd abs_out_data bytes_of].
      split; [exact I'|]. split; [exact Hle|]. split; [now apply bpos_le|].
      split; [exact Hpre|]. split; [rewrite lenN_takeN; lia|]. split; [exact P'|].
      intros Hn _. apply takeN_nonempty; [exact Hn|]. rewrite Eb. discriminate.
  Qed.

  (* ---- fill_buf *)
  Lemma byte_fill_ok r : BInv r ->
    BInv (fst (byte_fill_buf F r)) /\ cur_ok data (abs_b F (r, BFill, snd (byte_fill_buf F r))) /\
    snd (byte_fill_buf F r) = OBytes (br_buf (fst (byte_fill_buf F r))).
  Proof.
    intros I. pose proof (bpos_le r I) as Hle. unfold cur_ok, abs_b. cbn [e_pos e_op e_out e_pos' byte_step].
    unfold byte_fill_buf. destruct (br_buf r) as [|b0 bs] eqn:Eb.
    - destruct (byte_refill_spec r I Eb) as [(Er & ->)|(f & rest & r1 & Er & Hf & -> & I1 & Eb1 & Er1 & P1)].
      + cbn [fst snd abs_out_data bytes_of]. split; [exact I|]. split; [|now rewrite Eb].
        split; [exact Hle|]. split; [exact Hle|]. split; [apply prefix_nil|]. split; [reflexivity|].
        intros Hlt. rewrite (at_end r I Eb Er) in Hlt. lia.
      + cbn [fst snd abs_out_data bytes_of]. split; [exact I1|]. split; [|reflexivity].
        split; [exact Hle|]. split; [rewrite P1; exact Hle|].
        destruct (binv_facts _ I1) as (d1 & Hd1 & Pd1 & _).
        split; [rewrite <- P1, Pd1, Hd1, dropN_app_len; apply prefix_app|]. split; [exact P1|].
        intros _. rewrite Eb1. now apply serf_nonempty.
    - cbn [fst snd abs_out_data bytes_of]. split; [exact I|]. split; [|now rewrite Eb].
      split; [exact Hle|]. split; [exact Hle|].
      destruct (binv_facts _ I) as (d0 & Hd0 & Pd0 & _).
      split; [rewrite Pd0, Hd0, dropN_app_len, Eb; apply prefix_app|]. split; [reflexivity|]. discriminate.
  Qed.

  (* ---- consume (k <= available) *)
  Lemma byte_consume_ok r k : BInv r -> k <= lenN (br_buf r) ->
    BInv (fst (byte_consume r k)) /\ cur_ok data (abs_b F (r, BConsume k, snd (byte_consume r k))).
  Proof.
    intros I Hk. pose proof (bpos_le r I) as Hle. unfold cur_ok, abs_b. cbn [e_pos e_op e_out e_pos' byte_step].
    unfold byte_consume. apply N.leb_le in Hk as Hk'. rewrite Hk'. cbn [fst snd abs_out_data bytes_of no_item].
    destruct I as (pre & done & E & Ec & Ed).
    assert (I0 : BInv r) by (exists pre, done; auto).
    assert (I1 : BInv {| br_dec := br_dec r; br_buf := dropN k (br_buf r) |}).
    { exists pre, (done ++ takeN k (br_buf r)). cbn [br_dec br_buf].
      split; [exact E|]. split; [exact Ec|]. now rewrite <- app_assoc, take_drop. }
    split; [exact I1|]. split; [exact Hle|]. split; [now apply bpos_le|].
    destruct (binv_facts _ I0) as (d0 & _ & P0 & L0). destruct (binv_facts _ I1) as (d1 & _ & P1 & L1).
    cbn [br_dec br_buf] in *. rewrite lenN_dropN in L1. lia.
  Qed.

  (* ---- seek *)
  Lemma binv_after_dec_seek pre rest o g :
    f_slots F = pre ++ rest -> o = sumlen pre ->
    BInv {| br_dec := {| d_rest := rest; d_cur := o; d_buf := g |}; br_buf := [] |} /\
    bpos F {| br_dec := {| d_rest := rest; d_cur := o; d_buf := g |}; br_buf := [] |} = o * bpf.
  Proof.
    intros E Eo. split.
    - exists pre, (bdata F pre). cbn [br_dec br_buf d_rest d_cur]. rewrite app_nil_r. auto.
    - unfold bpos. cbn. lia.
  Qed.

  Lemma sumlen_pre_le pre rest : f_slots F = pre ++ rest -> sumlen pre <= total_frames F.
  Proof. intros E. rewrite (split_total F _ _ E). lia. Qed.

  (* the skip loop after landing on a seek point *)
  Lemma byte_skip_spec fuel : forall r new_pos desired,
    BInv r -> bpos F r = new_pos -> new_pos <= desired -> desired < U64 ->
    (new_pos < desired -> br_buf r = []) -> (length (d_rest (br_dec r)) < fuel)%nat ->
    let (r', o) := byte_skip F fuel r new_pos desired in
    BInv r' /\
    ((desired <= lenN data /\ o = OPos desired /\ bpos F r' = desired) \/
     (lenN data < desired /\ o = OErr EEof /\ bpos F r' = lenN data)).
  Proof.
    induction fuel as [|fuel IH]; intros r new_pos desired I P Hle Hd Hbuf Hfuel; [lia|].
    cbn [byte_skip]. destruct (N.ltb_spec new_pos desired) as [Hlt|Hge].
    - specialize (Hbuf Hlt). unfold byte_fill_buf. rewrite Hbuf.
      destruct (byte_refill_spec r I Hbuf) as [(Er & ->)|(f & rest & r1 & Er & Hf & -> & I1 & Eb1 & Er1 & P1)].
      + split; [exact I|]. right. rewrite <- P in *. rewrite (at_end r I Hbuf Er) in *. auto.
      + pose proof (serf_nonempty f Hf) as Hne. rewrite Eb1. cbn beta in *.
        destruct (ser (f_endian F) (bytes_per_sample (f_bps F)) (interleave f)) as [|b0 bs] eqn:Es; [congruence|].
        rewrite u64_sub_ok by lia. cbn [bind]. rewrite (v_usize F V), usize_ok by lia.
        set (to_skip := N.min (desired - new_pos) (lenN (b0 :: bs))).
        assert (Hts : to_skip <= lenN (br_buf r1)) by (rewrite Eb1; unfold to_skip; lia).
        destruct (byte_consume_ok r1 to_skip I1 Hts) as (I2 & C2).
        unfold byte_consume in *. apply N.leb_le in Hts as Hts'. rewrite Hts' in *. cbn [fst snd] in *.
        destruct C2 as (_ & _ & C2). cbn [abs_b e_op e_out e_pos e_pos' abs_out_data bytes_of no_item byte_step] in C2.
        unfold byte_consume in C2. rewrite Hts' in C2. cbn [fst] in C2.
        rewrite u64_add_ok by (unfold to_skip; lia).
        apply IH.
        * exact I2.
        * rewrite C2, P1, P. reflexivity.
        * unfold to_skip. lia.
        * exact Hd.
        * intros Hlt2. cbn [br_buf]. apply dropN_all. rewrite Eb1. unfold to_skip in *. lia.
        * cbn [br_dec]. rewrite Er1. rewrite Er in Hfuel. cbn [length] in Hfuel. lia.
    - split; [exact I|]. left. assert (new_pos = desired) by lia. subst desired.
      split; [rewrite <- P; now apply bpos_le|]. auto.
  Qed.

  Definition target_z (r : byte_reader) (sf : seekfrom) : Z :=
    match sf with
    | Start p => Z.of_N p
    | Current d => Z.of_N (bpos F r) + d
    | End_ d => Z.of_N (lenN data) + d
    end%Z.

  Lemma cur_le_total r : BInv r -> d_cur (br_dec r) * bpf <= total_frames F * bpf.
  Proof.
    intros (pre & done & E & -> & _). pose proof (sumlen_pre_le _ _ E). nia.
  Qed.

  (* decode.rs:724-777 computes the requested absolute position exactly, or fails exactly when the
     request points below byte 0 / beyond what u64 or the rules allow *)
  Lemma desired_pos_spec r sf : BInv r -> seekfrom_ok sf ->
    match desired_pos F r sf with
    | Ok (inr p) => sf = Current 0%Z /\ p = bpos F r
    | Ok (inl d) => d < U64 /\ Z.of_N d = target_z r sf /\ sf <> Current 0%Z /\
                    (forall q, sf = End_ q -> f_total F <> None)
    | Err _ => sf <> Current 0%Z /\
               ((target_z r sf < 0)%Z \/ (Z.of_N (lenN data) < target_z r sf)%Z \/
                (exists q, sf = End_ q /\ f_total F = None))
    | Panic _ => False
    end.
  Proof.
    intros I Hok. destruct (binv_facts r I) as (done & _ & P & L).
    pose proof (cur_le_total r I) as Hc. pose proof (v_range F V) as Hr. pose proof data_len as Hlen.
    pose proof (bpos_le r I) as Hple.
    unfold desired_pos, target_z. destruct sf as [q|q|q]; cbn [seekfrom_ok] in Hok.
    - split; [exact Hok|]. split; [reflexivity|]. split; [discriminate|]. discriminate.
    - rewrite u64_mul_ok by lia. cbn [bind]. rewrite u64_sub_ok by lia. cbn [bind].
      replace (d_cur (br_dec r) * bpf - lenN (br_buf r)) with (bpos F r) by (unfold bpos; reflexivity).
      unfold I64_MIN, I64_MAX in Hok. unfold checked_sub, checked_add, unsigned_abs.
      destruct (Z.compare_spec q 0) as [->|Hq|Hq].
      + auto.
      + destruct (N.leb_spec (Z.abs_N q) (bpos F r)) as [Hb|Hb].
        * split; [lia|]. split; [lia|]. split; [intros E; inversion E; lia|discriminate].
        * split; [intros E; inversion E; lia|]. left. lia.
      + destruct (N.ltb_spec (bpos F r + Z.abs_N q) U64) as [Hb|Hb].
        * split; [lia|]. split; [lia|]. split; [intros E; inversion E; lia|discriminate].
        * split; [intros E; inversion E; lia|]. right. left. unfold U64 in *. lia.
    - destruct (f_total F) as [t|] eqn:Et.
      + pose proof (v_total F V) as Ht. rewrite Et in Ht. subst t. rewrite (v_rev F V).
        rewrite u64_mul_ok by lia. cbn [bind]. rewrite <- Hlen.
        unfold I64_MIN, I64_MAX in Hok. unfold checked_sub, unsigned_abs.
        destruct (Z.compare_spec q 0) as [->|Hq|Hq].
        * split; [lia|]. split; [lia|]. split; [discriminate|]. congruence.
        * destruct (N.leb_spec (Z.abs_N q) (lenN data)) as [Hb|Hb].
          -- split; [lia|]. split; [lia|]. split; [discriminate|]. congruence.
          -- split; [discriminate|]. left. lia.
        * split; [discriminate|]. right. left. lia.
      + split; [discriminate|]. right. right. now exists q.
  Qed.

  Lemma seek_target_unfold r sf :
    seek_target F (lenN data) (bpos F r) sf =
    (if (match sf with
         | Current 0%Z => true
         | End_ _ => f_seekable F && match f_total F with Some _ => true | None => false end
         | _ => f_seekable F
         end) && (0 <=? target_z r sf)%Z && (target_z r sf <=? Z.of_N (lenN data))%Z
     then Some (Z.to_N (target_z r sf)) else None).
  Proof. unfold seek_target, target_z. destruct sf; reflexivity. Qed.

  Lemma byte_seek_ok r sf : BInv r -> seekfrom_ok sf ->
    BInv (fst (byte_seek F r sf)) /\ cur_ok data (abs_b F (r, BSeek sf, snd (byte_seek F r sf))).
  Proof.
    intros I Hok. pose proof (bpos_le r I) as Hle. pose proof (desired_pos_spec r sf I Hok) as HD.
    unfold cur_ok, abs_b. cbn [e_pos e_op e_out e_pos' byte_step]. rewrite seek_target_unfold.
    unfold byte_seek. destruct (desired_pos F r sf) as [[d|p]|e|k]; [| | |contradiction].
    - (* an absolute position d was computed *)
      destruct HD as (Hd & Hz & Hn0 & Hend).
      assert (Hallow : (match sf with
                        | Current 0%Z => true
                        | End_ _ => f_seekable F && match f_total F with Some _ => true | None => false end
                        | _ => f_seekable F
                        end) = f_seekable F).
      { destruct sf as [q|q|q]; [reflexivity| |].
        - destruct q; [congruence|reflexivity|reflexivity].
        - specialize (Hend q eq_refl). destruct (f_total F); [|congruence]. now rewrite andb_true_r. }
      rewrite Hallow. rewrite <- Hz. replace (0 <=? Z.of_N d)%Z with true by (symmetry; apply Z.leb_le; lia).
      rewrite N2Z.id, andb_true_r.
      destruct (f_seekable F) eqn:Esk; cbn [negb andb].
      + unfold div_u. pose proof (bpf_pos F V) as Hb. destruct (N.eqb_spec bpf 0) as [|_]; [lia|].
        destruct (dec_seek_spec F V (br_dec r) (d / bpf)) as (pre & rest & o & E & Eo & Hod & ->).
        pose proof (sumlen_pre_le _ _ E) as Hpt. pose proof (v_range F V) as Hr.
        assert (Hob : o * bpf <= d).
        { pose proof (N.mul_div_le d bpf ltac:(lia)). nia. }
        rewrite u64_mul_ok by (subst o; nia).
        destruct (binv_after_dec_seek pre rest o (d_buf (br_dec r)) E Eo) as (I0 & P0).
        pose proof (byte_skip_spec (S (S (length rest))) _ (o * bpf) d I0 P0 Hob Hd (fun _ => eq_refl)) as HS.
        cbn [br_dec d_rest] in HS. specialize (HS ltac:(lia)). cbn [d_rest].
        destruct (byte_skip F (S (S (length rest))) _ (o * bpf) d) as [r' out].
        destruct HS as (I' & [(Hdl & -> & P')|(Hdl & -> & P')]); cbn [fst snd abs_out_data bytes_of no_item].
        * split; [exact I'|]. split; [exact Hle|]. split; [now apply bpos_le|].
          replace (Z.of_N d <=? Z.of_N (lenN data))%Z with true by (symmetry; apply Z.leb_le; lia).
          auto.
        * split; [exact I'|]. split; [exact Hle|]. split; [now apply bpos_le|].
          replace (Z.of_N d <=? Z.of_N (lenN data))%Z with false by (symmetry; apply Z.leb_gt; lia).
          auto.
      + cbn [fst snd abs_out_data bytes_of no_item]. split; [exact I|]. split; [exact Hle|]. split; [exact Hle|]. auto.
    - (* Current(0): only a query *)
      destruct HD as (-> & ->). cbn [fst snd abs_out_data bytes_of no_item target_z].
      split; [exact I|]. split; [exact Hle|]. split; [exact Hle|].
      rewrite Z.add_0_r, N2Z.id.
      replace (0 <=? Z.of_N (bpos F r))%Z with true by (symmetry; apply Z.leb_le; lia).
      replace (Z.of_N (bpos F r) <=? Z.of_N (lenN data))%Z with true by (symmetry; apply Z.leb_le; lia).
      cbn [andb]. auto.
    - (* rejected before touching anything *)
      destruct HD as (Hn0 & HD). cbn [fst snd abs_out_data bytes_of no_item].
      split; [exact I|]. split; [exact Hle|]. split; [exact Hle|].
      destruct HD as [Hneg|[Hbig|(q & -> & Et)]].
      + replace (0 <=? target_z r sf)%Z with false by (symmetry; apply Z.leb_gt; lia).
        rewrite andb_false_r. cbn [andb]. auto.
      + replace (target_z r sf <=? Z.of_N (lenN data))%Z with false by (symmetry; apply Z.leb_gt; lia).
        rewrite andb_false_r. auto.
      + rewrite Et. rewrite andb_false_r. cbn [andb]. auto.
  Qed.
End Byte.
