(* Property C13 — success is only reported when the output really reached the underlying stream.
   Statements in full; proofs by `exact`.  The model (IoFault.v) is of the code AFTER the two fixes
   (worktree commits 441bd12, b2e53f1); the `*_unfixed_refuted` examples show the old code failing. *)
From FlacBase Require Import Res Bits.
From FlacUpdIo Require Import GenUpd Update IoFault IoFault_proofs.
Open Scope N_scope.

(* the general statement: for every program at the writer interface, every fault schedule, bare device
   or BufWriter of any capacity: Ok from the writer's whole life (program + drop) means the device is
   exactly what the program produces on a perfect device.  Through a BufWriter this needs the program to
   end with a checked flush (or seek) — which is what the fixes add. *)
Theorem C13_writer_ok_means_delivered :
  forall (st : stack) (p : list wop) (w w' : world),
    run_writer st p w = (Ok tt, w') ->
    (match st with SRaw => true | SBuf _ => ends_flushed p end) = true ->
    wdev w' = ideal p (wdev w).
Proof. exact run_writer_ok_complete. Qed.

(* encode + finalize (Encoder::new / encode / finalize_inner), any front-end, any chunking of the
   output into write calls, bare device or BufWriter (the `create` constructors): Ok means the device
   holds the finished file = final header ++ frames *)
Theorem C13_encode_finalize :
  forall (st : stack) (ck : list N -> list (list N)) (pre hdr0 : list N) (frames : list (list N)) (hdr1 : list N)
         (sc : sched) (w' : world),
    ck_ok ck -> length hdr1 = length hdr0 ->
    run_writer st (encode_prog ck (length pre) hdr0 frames hdr1)
               {| wdev := {| data := pre; pos := length pre |}; wsched := sc |} = (Ok tt, w') ->
    data (wdev w') = pre ++ hdr1 ++ concat frames.
Proof. exact encode_ok_complete. Qed.

(* write_blocks on the caller's writer *)
Theorem C13_write_blocks :
  forall (ck : list N -> list (list N)) (bytes : list N) (d : dev) (sc : sched) (w' : world),
    ck_ok ck ->
    run_writer SRaw (write_blocks_prog ck bytes) {| wdev := d; wsched := sc |} = (Ok tt, w') ->
    wdev w' = put bytes d.
Proof. exact write_blocks_ok_complete. Qed.

(* the defect F-C13b as a theorem about the old program (no flush after the header rewrite) *)
Example C13_create_unfixed_refuted :
  let sc := {| sw := {| pending := [FOk]; dflt_err := true |}; sf := quiet; ss := quiet; sr := quiet |} in
  let '(r, w') := run_writer (SBuf 8192) (encode_prog_unfixed whole 0 [1; 2] [[3]; [4]] [7; 8])
                             {| wdev := {| data := []; pos := 0 |}; wsched := sc |} in
  r = Ok tt /\ data (wdev w') = [1; 2; 3; 4] /\ data (wdev w') <> [7; 8; 3; 4].
Proof. exact create_unfixed_refuted. Qed.

(* update_file over two faulty devices (original: Read+Write+Seek; rebuilt: Write), code after fix 441bd12:
   for every schedule of both devices, buffer capacity and chunking, Ok(b) means the devices hold exactly
   what the fault-free update_file of Update.v computes (which C10 characterises), with the same b *)
Theorem C13_update_file :
  forall (payload : Type) (psize : payload -> N) (ser : payload -> list N)
         (uclass : okind -> payload -> option N)
         (read_blocks : list N -> res (blocklist payload * list N)),
    (forall s bl rest, read_blocks s = Ok (bl, rest) -> exists m, s = m ++ rest) ->
    forall (cap : nat) (ck : list N -> list (list N)) (edit : blocklist payload -> res (blocklist payload))
           (rb : bool) (w1 w2 : world) (b : bool) (w1' w2' : world),
      (0 < cap)%nat -> ck_ok ck -> honest (sr (wsched w1)) ->
      (pos (wdev w1) <= length (data (wdev w1)))%nat ->
      wdev w2 = {| data := []; pos := 0 |} ->
      update_file_io payload psize ser uclass read_blocks true cap ck edit rb w1 w2 = (Ok b, w1', w2') ->
      update_file payload psize ser uclass read_blocks edit (pos (wdev w1)) (data (wdev w1)) =
        ({| orig := data (wdev w1'); rebuilt := if b then Some (data (wdev w2')) else None |}, Ok b).
Proof. exact update_file_io_sound. Qed.

(* never a panic: writer side (any stack, program, schedule) ... *)
Theorem C13_no_panic_writer :
  forall (st : stack) (p : list wop) (w : world), is_panic (fst (run_writer st p w)) = false.
Proof. exact run_writer_no_panic. Qed.
(* ... and update_file (unless the block reader or the callback panics) *)
Theorem C13_no_panic_update :
  forall (payload : Type) (psize : payload -> N) (ser : payload -> list N)
         (uclass : okind -> payload -> option N)
         (read_blocks : list N -> res (blocklist payload * list N)),
    (forall p, lenN (ser p) = psize p) ->
    forall (fixed : bool) (cap : nat) (ck : list N -> list (list N))
           (edit : blocklist payload -> res (blocklist payload)) (rb : bool) (w1 w2 : world),
      (forall s, is_panic (read_blocks s) = false) -> (forall bl, is_panic (edit bl) = false) ->
      is_panic (fst (fst (update_file_io payload psize ser uclass read_blocks fixed cap ck edit rb w1 w2))) = false.
Proof. exact update_file_io_no_panic. Qed.

(* a read that fails (not Interrupted) ends both read loops with Err at that very call *)
Theorem C13_read_errors_propagate :
  (forall fuel cap need got w w1, (length got < need)%nat ->
     dev_read cap w = (IErr false, w1) -> fill_until (S fuel) cap need got w = (Err EIo, w1)) /\
  (forall fuel cap acc w w1,
     dev_read cap w = (IErr false, w1) -> read_to_end (S fuel) cap acc w = (Err EIo, w1)).
Proof. exact (conj fill_until_read_error read_to_end_read_error). Qed.

(* the defect F-C13a as a theorem about the old in-place path (BufWriter dropped without checked flush) *)
Example C13_update_inplace_unfixed_refuted :
  let '(r, w1, _) := demo_io false all_writes_fail in
  r = Ok false /\ data (wdev w1) = repeat 9 80 /\
  let '(r0, w0, _) := demo_io false no_faults in r0 = Ok false /\ data (wdev w0) <> repeat 9 80.
Proof. exact update_inplace_unfixed_refuted. Qed.
