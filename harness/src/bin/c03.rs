//! C03 harness.
//!  (i)  `c03 --stdin`: generic runner. Reads lines `{"id":…,"bytes":"<hex>","kind":"dec_stream"|"dec_subset"}`
//!       and prints the implementation's observation ("case" line) for each; for dec_stream all reader
//!       front-ends are run and a disagreement among them is a violation.
//!  (ii) default: structure-aware generator of valid-by-construction streams (every syntactic
//!       alternative chosen independently, residuals derived from arbitrary target PCM with i128
//!       arithmetic), decoded by every reader and compared with the target PCM; MD5 verdicts.
#[path = "c01_shared/mod.rs"]
mod shared;

use flac_codec::decode::{verify_reader, Verified};
use flac_codec::stream::Frame;
use shared::fgen::{gen_file, gen_subset, GenCfg};
use shared::io::*;
use shared::*;
use std::collections::BTreeMap;
use std::io::{BufRead, Cursor};
use vharness::json::{esc, obj};
use vharness::*;

fn jstr(line: &str, key: &str) -> Option<String> {
    let pat = format!("\"{}\":", key);
    let i = line.find(&pat)? + pat.len();
    let rest = line[i..].trim_start();
    if let Some(r) = rest.strip_prefix('"') {
        let e = r.find('"')?;
        Some(r[..e].to_string())
    } else {
        let e = rest.find(|c: char| c == ',' || c == '}').unwrap_or(rest.len());
        Some(rest[..e].trim().to_string())
    }
}

fn compare_readers(out: &mut Out, bytes: &[u8], base: &Obs, what: &str, id: &str) {
    for name in READERS.iter().skip(1) {
        let o = run_reader(name, bytes, 1000);
        let same_class = end_class(&o.end) == end_class(&base.end);
        if let End::Panic(p) = &o.end {
            if !matches!(base.end, End::Panic(_)) {
                out.viol_panic(&format!("reader-{}", name), p, &format!("{}: reader {} panics where sample reader ends {}", what, name, base.end.tag()), &[("bytes", esc(&hex(bytes))), ("id", esc(id))]);
                continue;
            }
        }
        if !same_class || o.samples != base.samples || (o.opened && (o.ch != base.ch || o.bps != base.bps || o.rate != base.rate)) {
            out.viol(
                &format!("readers-disagree:{}", name),
                &format!("{}: reader {} gives {} samples ending {}, sample reader (fill_buf) gives {} samples ending {}", what, name, o.samples.len(), o.end.tag(), base.samples.len(), base.end.tag()),
                &[("bytes", esc(&hex(bytes))), ("id", esc(id))],
            );
        }
    }
}

fn stdin_runner() {
    let mut out = Out::new();
    let stdin = std::io::stdin();
    let mut n = 0usize;
    for line in stdin.lock().lines() {
        let line = match line { Ok(l) => l, Err(_) => break };
        if !line.trim_start().starts_with('{') { continue; }
        let (Some(bytes), Some(kind)) = (jstr(&line, "bytes"), jstr(&line, "kind")) else { continue };
        let id = jstr(&line, "id").unwrap_or_default();
        let bytes = unhex(&bytes);
        n += 1;
        match kind.as_str() {
            "dec_stream" => {
                out.case(dec_stream_case(&bytes, None, &[("id", esc(&id))]));
                let base = rd_sample_fill(&bytes);
                compare_readers(&mut out, &bytes, &base, "model-generated stream", &id);
            }
            "dec_subset" => out.case(dec_subset_case(&bytes, &[("id", esc(&id))])),
            "struct" => {
                let si = jstr(&line, "si").unwrap_or_default();
                let sib = unhex(&si);
                let streaminfo = if sib.len() == 34 { shared::refdec::parse_si(&sib).ok().map(|s| Si { min_bs: s.min_bs as u16, max_bs: s.max_bs as u16, min_fs: s.min_fs, max_fs: s.max_fs, rate: s.rate, ch: s.ch as u8, bps: s.bps, total: s.total, md5: s.md5 }.to_streaminfo()) } else { None };
                let o = struct_obs(&bytes, streaminfo.as_ref());
                out.case(struct_case(&bytes, if sib.len() == 34 { Some(&sib) } else { None }, &o, &[("id", esc(&id))]));
            }
            _ => {}
        }
    }
    println!("{}", obj(&[("t", esc("stat")), ("mode", esc("stdin")), ("profile", esc(profile())), ("inputs", n.to_string()), ("viols", out.viols.to_string())]));
}

fn bump(m: &mut BTreeMap<String, usize>, tags: &[String]) {
    for t in tags { *m.entry(t.clone()).or_insert(0) += 1; }
}

fn main() {
    hook_panics();
    if std::env::args().any(|a| a == "--stdin") {
        stdin_runner();
        return;
    }
    let seed = env_seed();
    let thorough = env_tier_thorough();
    let mut out = Out::new();
    let mut rng = Rng::new(seed, 0xC03);
    let kinds = shared::space::all_kinds();
    let mut tags: BTreeMap<String, usize> = BTreeMap::new();
    let (mut n_files, mut n_subset, mut selfcheck_fail, mut emit_mismatch, mut md5_cases, mut pred_ovf_cases) = (0usize, 0usize, 0usize, 0usize, 0usize, 0usize);
    let mut emitted = 0usize;
    let mut writer_refusals = 0usize;
    let mut refusal_kinds: BTreeMap<String, usize> = BTreeMap::new();
    let max_emit = scale(if thorough { 1500 } else { 220 });

    // ---------------------------------------------------------------- (A) whole files
    let nfiles = scale(if thorough { 30000 } else { 700 });
    for i in 0..nfiles {
        let ch = match rng.below(5) { 0 => 1, 1 | 2 => 2, _ => rng.range(1, 8) as usize };
        let bps = match rng.below(5) { 0 => *rng.pick(&[8u32, 12, 16, 20, 24, 32]), 1 => 32, 2 => *rng.pick(&[1u32, 2, 3, 4, 5, 31, 17, 25]), _ => rng.range(1, 32) as u32 };
        let rate = shared::space::pick_rate(&mut rng);
        let variable = rng.chance(1, 3);
        let nblocks = rng.range(1, 4) as usize;
        let big = thorough && rng.chance(1, 30);
        let base = if big { *rng.pick(&[192usize, 256, 1152, 4096, 4608, 65535, 32768]) } else if rng.chance(1, 4) { *rng.pick(&[16usize, 32, 64, 192, 256]) } else { rng.range(16, 90) as usize };
        let mut blocks: Vec<usize> = vec![];
        for b in 0..nblocks {
            let last = b == nblocks - 1;
            let n = if variable { if last { rng.range(1, base as i64) as usize } else { rng.range(16, base.max(16) as i64) as usize } } else if last { if rng.chance(1, 2) { base } else { rng.range(1, base as i64) as usize } } else { base };
            blocks.push(n);
        }
        let kind = kinds[i % kinds.len()];
        let total_known = rng.chance(2, 3);
        let with_md5 = rng.chance(3, 4);
        let cfg = GenCfg { subset: false, allow_pred_overflow: bps >= 30 && rng.chance(1, 3), max_unary: 200 };
        let g = gen_file(&mut rng, &cfg, kind, ch, bps, rate, &blocks, variable, total_known, with_md5);
        if let Some(e) = &g.write_err {
            // Frame::write refused a valid frame description: C17's business (re-serialisation); counted here
            writer_refusals += 1;
            *refusal_kinds.entry(e.clone()).or_insert(0) += 1;
        }
        // self-check of the generator with the independent decoder
        match shared::refdec::stream(&g.bytes) {
            Ok(rs) => {
                if rs.pcm.iter().map(|v| *v as i32).collect::<Vec<i32>>() != g.pcm {
                    selfcheck_fail += 1;
                    note(&format!("generator self-check: independent decoder decodes different PCM ({})", g.tags.join(" ")));
                    continue;
                }
            }
            Err(e) => {
                selfcheck_fail += 1;
                note(&format!("generator self-check: independent decoder rejects the stream: {} ({}) bytes={}", e, g.tags.join(" "), hex(&g.bytes[..g.bytes.len().min(300)])));
                continue;
            }
        }
        // self-check of the field emitter used by C04/C17 (first frame)
        {
            let si = g.si.to_streaminfo();
            let mut cur = Cursor::new(&g.bytes[g.offsets[0]..g.offsets[1]]);
            if let Ok(Ok(fr)) = catch(|| Frame::read(&mut cur, &si)) {
                let again = shared::mutate::serialise(&shared::mutate::fields_of_frame(&fr));
                if again != g.bytes[g.offsets[0]..g.offsets[1]] { emit_mismatch += 1; }
            }
        }
        n_files += 1;
        bump(&mut tags, &g.tags);
        if g.pred_overflow { pred_ovf_cases += 1; }
        let what = format!("valid generated file ({} ch, {} bps, rate {}, blocks {:?}, {})", ch, bps, rate, blocks, if variable { "variable" } else { "fixed" });
        let common: Vec<(&str, String)> = vec![("bytes", esc(&hex(&g.bytes))), ("expect", vharness::json::ints(&g.pcm)), ("tags", esc(&g.tags.join(" "))), ("pred_overflow", g.pred_overflow.to_string())];
        let mut any_bad = false;
        for name in READERS {
            let o = run_reader(name, &g.bytes, 777);
            match &o.end {
                End::Panic(p) => {
                    any_bad = true;
                    out.viol_panic("valid-stream", p, &format!("{}: reader {} panics: {}", what, name, p), &common);
                }
                End::Err(e) => {
                    any_bad = true;
                    out.viol(&format!("valid-stream-rejected:{}", e), &format!("{}: reader {} reports {} after {} of {} samples", what, name, e, o.samples.len(), g.pcm.len()), &common);
                }
                End::Eof => {
                    if o.samples != g.pcm {
                        any_bad = true;
                        let at = o.samples.iter().zip(g.pcm.iter()).position(|(a, b)| a != b).unwrap_or(o.samples.len().min(g.pcm.len()));
                        out.viol("valid-stream-wrong-samples", &format!("{}: reader {} returns {} samples, expected {}; first difference at index {}", what, name, o.samples.len(), g.pcm.len(), at), &common);
                    } else if o.ch as usize != ch || o.bps != bps || o.rate != rate {
                        any_bad = true;
                        out.viol("valid-stream-wrong-params", &format!("{}: reader {} reports ch={} bps={} rate={}", what, name, o.ch, o.bps, o.rate), &common);
                    }
                }
            }
        }
        // MD5 verdicts
        if !any_bad {
            md5_cases += 1;
            let verdict = catch(|| verify_reader(Cursor::new(&g.bytes[..])));
            let want = if with_md5 { Verified::MD5Match } else { Verified::NoMD5 };
            match &verdict {
                Ok(Ok(v)) if *v == want => {}
                other => out.viol("md5-verdict-wrong", &format!("{}: verify_reader says {:?}, expected {:?}", what, other.as_ref().map(|r| r.as_ref().map_err(|e| err_class(e))), want), &common),
            }
            if with_md5 {
                let mut f = g.bytes.clone();
                let k = rng.below(16) as usize;
                f[26 + k] ^= 1 << rng.below(8);
                if f[26..42] != [0u8; 16] {
                    md5_cases += 1;
                    match catch(|| verify_reader(Cursor::new(&f[..]))) {
                        Ok(Ok(Verified::MD5Mismatch)) => {}
                        other => out.viol("md5-verdict-wrong", &format!("{}: stored digest altered, verify_reader says {:?}", what, other.map(|r| r.map_err(|e| err_class(&e)))), &[("bytes", esc(&hex(&f)))]),
                    }
                }
            }
        }
        if emitted < max_emit && g.bytes.len() < 6000 && g.pcm.len() <= MODEL_MAX_SAMPLES {
            emitted += 1;
            out.case(dec_stream_case(&g.bytes, Some(&g.pcm), &[("src", esc("gen")), ("tags", esc(&g.tags.join(" ")))]));
        }
    }

    // ---------------------------------------------------------------- (B) raw frame streams
    let nsub = scale(if thorough { 15000 } else { 400 });
    for _ in 0..nsub {
        let cfg = GenCfg { subset: true, allow_pred_overflow: rng.chance(1, 6), max_unary: 200 };
        let nfr = rng.range(1, 4) as usize;
        let maxb = if thorough && rng.chance(1, 20) { 4608 } else { 80 };
        let g = gen_subset(&mut rng, &cfg, nfr, maxb);
        if let Some(e) = &g.write_err {
            writer_refusals += 1;
            *refusal_kinds.entry(e.clone()).or_insert(0) += 1;
        }
        // self-check each frame
        let mut ok = true;
        for (k, fr) in g.frames.iter().enumerate() {
            match shared::refdec::frame(&g.bytes[g.offsets[k]..], None) {
                Ok(rf) => {
                    let mut inter = vec![];
                    for i in 0..rf.bs as usize { for c in 0..rf.ch as usize { inter.push(rf.chans[c][i] as i32); } }
                    if inter != fr.samples || rf.rate != fr.rate || rf.bps != fr.bps || rf.len != g.offsets[k + 1] - g.offsets[k] { ok = false; note(&format!("generator self-check (subset): independent decoder differs ({})", g.tags.join(" "))); }
                }
                Err(e) => { ok = false; note(&format!("generator self-check (subset): independent decoder rejects: {} ({})", e, g.tags.join(" "))); }
            }
        }
        if !ok { selfcheck_fail += 1; continue; }
        n_subset += 1;
        bump(&mut tags, &g.tags);
        if g.pred_overflow { pred_ovf_cases += 1; }
        let common: Vec<(&str, String)> = vec![("bytes", esc(&hex(&g.bytes))), ("tags", esc(&g.tags.join(" "))), ("pred_overflow", g.pred_overflow.to_string())];
        let (frames, end) = run_subset(&g.bytes[..], 1000);
        match &end {
            End::Panic(p) => out.viol_panic("valid-subset", p, &format!("FlacStreamReader panics on a valid raw frame stream: {}", p), &common),
            End::Err(e) if e == "Io:UnexpectedEof" && frames == g.frames => {}
            _ => {
                let k = frames.iter().zip(g.frames.iter()).position(|(a, b)| a != b).unwrap_or(frames.len().min(g.frames.len()));
                out.viol(
                    &format!("valid-subset-wrong:{}", if frames.len() < g.frames.len() { end.tag() } else { "frames".into() }),
                    &format!("FlacStreamReader over {} valid frames returns {} frames then {}; first differing frame {}", g.frames.len(), frames.len(), end.tag(), k),
                    &common,
                );
            }
        }
        if emitted < max_emit + max_emit / 2 && g.bytes.len() < 6000 && g.frames.iter().map(|f| f.samples.len()).sum::<usize>() <= MODEL_MAX_SAMPLES {
            emitted += 1;
            out.case(dec_subset_case(&g.bytes, &[("src", esc("gen")), ("tags", esc(&g.tags.join(" ")))]));
        }
    }

    let tg: Vec<String> = tags.iter().map(|(k, v)| format!("{}:{}", esc(k), v)).collect();
    println!(
        "{}",
        obj(&[
            ("t", esc("stat")), ("mode", esc("gen")), ("profile", esc(profile())), ("files", n_files.to_string()), ("subset_streams", n_subset.to_string()),
            ("selfcheck_fail", selfcheck_fail.to_string()), ("emitter_mismatch", emit_mismatch.to_string()), ("md5_cases", md5_cases.to_string()),
            ("pred_overflow_cases", pred_ovf_cases.to_string()), ("struct_writer_refusals", writer_refusals.to_string()),
            ("struct_writer_refusal_kinds", format!("{{{}}}", refusal_kinds.iter().map(|(k, v)| format!("{}:{}", esc(k), v)).collect::<Vec<_>>().join(","))), ("cases_emitted", out.cases.to_string()), ("viols", out.viols.to_string()),
            ("viol_keys", out.counts()), ("alternatives", format!("{{{}}}", tg.join(","))),
        ])
    );
}
