(* Driver for the extracted updateio model (coq/updateio/Extract.v).
   One case per line on stdin, one canonical result per line on stdout.

   C10  "c10 old=<n> si=<size> blocks=<ty>:<size>:<uc>;<ty>:<size>:<uc>;..."   (uc = -1: no class)
        -> "ok inplace|rebuild <ty>:<size>;..."  |  "err"  |  "panic"
   C13  "c13 ..." (see below) *)
open Updateio_model

let rec pos_of_int n =
  if n = 1 then XH else if n land 1 = 1 then XI (pos_of_int (n lsr 1)) else XO (pos_of_int (n lsr 1))
let n_of_int n = if n = 0 then N0 else Npos (pos_of_int n)
let rec int_of_pos = function XH -> 1 | XO p -> 2 * int_of_pos p | XI p -> 2 * int_of_pos p + 1
let int_of_n = function N0 -> 0 | Npos p -> int_of_pos p

let split_on c s = List.filter (fun x -> x <> "") (String.split_on_char c s)

let kv line =
  List.filter_map
    (fun tok ->
      match String.index_opt tok '=' with
      | Some i -> Some (String.sub tok 0 i, String.sub tok (i + 1) (String.length tok - i - 1))
      | None -> None)
    (split_on ' ' line)

let get kvs k = try List.assoc k kvs with Not_found -> ""

(* ------------------------------------------------------------------ C10 *)
let c10 kvs =
  let old_size = n_of_int (int_of_string (get kvs "old")) in
  let si = (n_of_int (int_of_string (get kvs "si")), None) in
  let blocks =
    List.map
      (fun item ->
        match String.split_on_char ':' item with
        | [ ty; size; uc ] ->
            let ty = int_of_string ty and size = int_of_string size and uc = int_of_string uc in
            if ty = 1 then OPadding (n_of_int size)
            else
              let k =
                match ty with
                | 2 -> KApplication | 3 -> KSeekTable | 4 -> KVorbisComment | 5 -> KCuesheet | 6 -> KPicture
                | _ -> failwith ("bad block type " ^ item)
              in
              OOther (k, (n_of_int size, if uc < 0 then None else Some (n_of_int uc)))
        | _ -> failwith ("bad block " ^ item))
      (split_on ';' (get kvs "blocks"))
  in
  match d_update old_size si blocks with
  | Ok (rebuilt, bs) ->
      Printf.printf "ok %s %s\n"
        (if rebuilt then "rebuild" else "inplace")
        (String.concat ";" (List.map (fun (ty, sz) -> Printf.sprintf "%d:%d" (int_of_n ty) (int_of_n sz)) bs))
  | Err _ -> print_string "err\n"
  | Panic _ -> print_string "panic\n"

(* ------------------------------------------------------------------ C13 *)
let rec nat_of_int n = if n <= 0 then O else S (nat_of_int (n - 1))
let rec int_of_nat = function O -> 0 | S k -> 1 + int_of_nat k

let bytes_of_hex s =
  let n = String.length s / 2 in
  List.init n (fun i -> n_of_int (int_of_string ("0x" ^ String.sub s (2 * i) 2)))

let fnv (bs : n list) =
  let h = ref 0x811c9dc5 in
  List.iter (fun b -> h := ((!h lxor int_of_n b) * 0x01000193) land 0xFFFFFFFF) bs;
  Printf.sprintf "%d:%08x" (List.length bs) !h

(* "ooe s3,i/e" style: pending outcomes then '/' then the default *)
let stream_of_text t =
  let i = String.index t '/' in
  let p = String.sub t 0 i and d = String.sub t (i + 1) (String.length t - i - 1) in
  let out = ref [] in
  let j = ref 0 in
  let n = String.length p in
  while !j < n do
    (match p.[!j] with
    | 'o' -> out := FOk :: !out; incr j
    | 'e' -> out := FErr :: !out; incr j
    | 'i' -> out := FIntr :: !out; incr j
    | 's' ->
        let k = String.index_from p !j ',' in
        out := FShort (nat_of_int (int_of_string (String.sub p (!j + 1) (k - !j - 1)))) :: !out;
        j := k + 1
    | c -> failwith (Printf.sprintf "bad fault char %c" c))
  done;
  { pending = List.rev !out; dflt_err = (d = "e") }

let sched_of kvs = { sw = stream_of_text (get kvs "w"); sf = stream_of_text (get kvs "f"); ss = stream_of_text (get kvs "s"); sr = stream_of_text (get kvs "r") }

let stack_of = function "raw" -> SRaw | "buf" -> SBuf (nat_of_int 8192) | "buf16" -> SBuf (nat_of_int 16) | s -> failwith ("bad stack " ^ s)

let prog_of_text t =
  List.map
    (fun item ->
      let rest = String.sub item 1 (String.length item - 1) in
      match item.[0] with
      | 'a' -> WWriteAll (bytes_of_hex rest)
      | 'l' -> WWriteLoop (bytes_of_hex rest)
      | 'f' -> WFlush
      | 'c' -> WSeekCur
      | 's' -> WSeek (nat_of_int (int_of_string rest))
      | c -> failwith (Printf.sprintf "bad op %c" c))
    (split_on ',' t)

let programs : (string, stack * wop list) Hashtbl.t = Hashtbl.create 16

let c13p kvs = Hashtbl.replace programs (get kvs "id") (stack_of (get kvs "stack"), prog_of_text (get kvs "prog"))

let c13r kvs =
  let st, p = Hashtbl.find programs (get kvs "id") in
  let r, d = d_run_writer st p (sched_of kvs) in
  Printf.printf "%s %s\n" (match r with Ok _ -> "ok" | Err _ -> "err" | Panic _ -> "panic") (fnv d)

let oblocks_of t =
  List.map
    (fun item ->
      match String.split_on_char ':' item with
      | [ ty; size; uc ] ->
          let ty = int_of_string ty and size = int_of_string size and uc = int_of_string uc in
          if ty = 1 then OPadding (n_of_int size)
          else
            let k =
              match ty with
              | 2 -> KApplication | 3 -> KSeekTable | 4 -> KVorbisComment | 5 -> KCuesheet | 6 -> KPicture
              | _ -> failwith ("bad block type " ^ item)
            in
            OOther (k, (n_of_int size, if uc < 0 then None else Some (n_of_int uc)))
      | _ -> failwith ("bad block " ^ item))
    (split_on ';' t)

(* c13u fixed=<0|1> off=<audio offset> len=<file length> si=<size> before=<blocks> after=<blocks|none> rb=<0|1>
        w=.. f=.. s=.. r=..  w2=.. f2=..  -> "<class> <len1> <len2>" *)
let c13u kvs =
  let quiet = "/o" in
  let g k = let v = get kvs k in if v = "" then quiet else v in
  let sc1 = sched_of kvs in
  let sc2 = { sw = stream_of_text (g "w2"); sf = stream_of_text (g "f2"); ss = stream_of_text quiet; sr = stream_of_text quiet } in
  let after = if get kvs "after" = "none" then None else Some (oblocks_of (get kvs "after")) in
  let (r, l1), l2 =
    d_update_io (get kvs "fixed" = "1") (nat_of_int 8192) (nat_of_int (int_of_string (get kvs "off")))
      (nat_of_int (int_of_string (get kvs "len")))
      (n_of_int (int_of_string (get kvs "si")), None)
      (oblocks_of (get kvs "before")) after (get kvs "rb" = "1") sc1 sc2
  in
  Printf.printf "%s %d %d\n"
    (match r with Ok true -> "ok:true" | Ok false -> "ok:false" | Err _ -> "err" | Panic _ -> "panic")
    (int_of_nat l1) (int_of_nat l2)

let () =
  try
    while true do
      let line = String.trim (input_line stdin) in
      if line <> "" then begin
        let kvs = kv line in
        match List.hd (split_on ' ' line) with
        | "c10" -> c10 kvs
        | "c13p" -> c13p kvs
        | "c13r" -> c13r kvs
        | "c13u" -> c13u kvs
        | other -> Printf.printf "unknown-case-kind %s\n" other
      end
    done
  with End_of_file -> ()
