//! C17 searcher: the structural parser (`stream::Frame::read` / `read_subset`) re-serialises
//! identically and agrees with the streaming decoder.  For every frame the structural parser
//! accepts (crate encoder output over the C01 space, the C03 generator's valid frames,
//! checksum-valid malformed frames):
//!   * `Frame::write` reproduces the bytes (when frame number minimal and padding zero);
//!   * every subframe's `decode()` has block-size samples;
//!   * after undoing decorrelation they equal the streaming decoder's output for that frame;
//!   * given the same STREAMINFO, parser and decoder accept / reject the same frames.
//! Runs in the release profile (the debug-profile arithmetic traps are C03/C04 business).
#[path = "c01_shared/mod.rs"]
mod shared;

use bitstream_io::BitCount;
use flac_codec::stream::{ChannelAssignment, Frame, FrameHeader, FrameNumber, Independent, ResidualPartition, Residuals, Subframe, SubframeWidth};
use shared::fgen::{gen_file, gen_subset, GenCfg};
use shared::io::*;
use shared::mutate::*;
use shared::space::*;
use shared::*;
use std::collections::BTreeMap;
use vharness::json::{esc, obj};
use vharness::*;

struct St {
    frames: usize,
    accepted: usize,
    rejected_both: usize,
    by_src: BTreeMap<String, usize>,
    struct_errs: BTreeMap<String, usize>,
    cases: usize,
    cases_encoder: usize,
    max_cases: usize,
    skipped_rewrite_nonminimal: usize,
    skipped_out_of_range: usize,
    parity_skipped_resync: usize,
}

/// Decode a single frame with the streaming decoder, given its STREAMINFO (file reader with
/// unknown total so that only frame-level rules apply) or, for subset frames, FlacStreamReader.
fn stream_decode(frame: &[u8], si: Option<&Si>) -> (Vec<i32>, End) {
    match si {
        Some(si) => {
            let mut s = si.clone();
            s.total = 0;
            s.md5 = [0; 16];
            let mut f = s.file_header(None);
            f.extend_from_slice(frame);
            let d = decode_all(&f);
            (d.samples, d.end)
        }
        None => {
            let (frames, end) = run_subset(frame, 4);
            match frames.into_iter().next() {
                Some(f) => (f.samples, if end == End::Err("Io:UnexpectedEof".into()) { End::Eof } else { end }),
                None => (vec![], end),
            }
        }
    }
}

fn min_number_len(v: u64) -> usize {
    match v { 0..=0x7F => 1, 0x80..=0x7FF => 2, 0x800..=0xFFFF => 3, 0x1_0000..=0x1F_FFFF => 4, 0x20_0000..=0x3FF_FFFF => 5, 0x400_0000..=0x7FFF_FFFF => 6, _ => 7 }
}

/// `frame` = exactly the bytes of one candidate frame (possibly followed by nothing).
fn check_frame(out: &mut Out, st: &mut St, src: &str, frame: &[u8], si: Option<&Si>, what: &str) {
    st.frames += 1;
    *st.by_src.entry(src.to_string()).or_insert(0) += 1;
    let streaminfo = si.map(|s| s.to_streaminfo());
    clear_panic_loc();
    let o = struct_obs(frame, streaminfo.as_ref());
    let si_body = si.map(|s| s.body());
    let input: Vec<(&str, String)> = vec![("src", esc(src)), ("what", esc(what)), ("bytes", esc(&hex(&frame[..frame.len().min(8000)]))), ("si", esc(&si_body.as_ref().map(|b| hex(b)).unwrap_or_default()))];
    let (dec_samples, dec_end) = stream_decode(frame, si);
    // separate budgets so that encoder frames (needed for the admissibility tie) are never
    // crowded out by the other sources
    let budget = if src == "encoder" { &mut st.cases_encoder } else { &mut st.cases };
    if *budget < st.max_cases && frame.len() < 2500 && o.decoded.as_ref().map(|d| d.iter().map(|c| c.len()).sum::<usize>()).unwrap_or(0) <= MODEL_MAX_SAMPLES {
        *budget += 1;
        out.case(struct_case(frame, si_body.as_deref(), &o, &[("src", esc(src))]));
    }
    match &o.end {
        End::Panic(p) => { out.viol_panic("struct-parse", p, &format!("structural parser panics ({}; {}): {}", src, what, p), &input); return; }
        End::Err(e) => {
            *st.struct_errs.entry(e.split(':').next().unwrap_or("").to_string()).or_insert(0) += 1;
            // parser rejects: the decoder must reject too
            match &dec_end {
                End::Eof if !dec_samples.is_empty() || true => {
                    // a raw frame goes through FlacStreamReader, which on a rejected header scans on for
                    // the next sync code and could (1 in 2^24 per candidate) find a checksum-valid frame
                    // inside the bytes: the reader commits to offset 0 exactly when the header there parses
                    let at_zero = si.is_some() || matches!(catch(|| FrameHeader::read_subset(&mut &frame[..])), Ok(Ok(_)));
                    if matches!(dec_end, End::Eof) && !at_zero { st.parity_skipped_resync += 1; }
                    if matches!(dec_end, End::Eof) && at_zero {
                        out.viol("parity-parser-rejects-decoder-accepts", &format!("structural parser rejects ({}) a frame the streaming decoder accepts ({} samples) [{}; {}]", e, dec_samples.len(), src, what), &input);
                    }
                }
                _ => {}
            }
            if !matches!(dec_end, End::Eof) { st.rejected_both += 1; }
            return;
        }
        End::Eof => {}
    }
    st.accepted += 1;
    let fr = o.frame.as_ref().unwrap();
    let used = &frame[..o.consumed.min(frame.len())];
    // ---- re-serialisation
    match &o.rewrite_err {
        Some(e) => {
            if let Some(p) = e.strip_prefix("panic:") { out.viol_panic("struct-rewrite", p, &format!("Frame::write panics on a frame the parser accepted ({}; {}): {}", src, what, p), &input); }
            else { out.viol(&format!("struct-rewrite-fails:{}", e.trim_start_matches("err:")), &format!("Frame::write fails with {} on a frame the parser accepted ({}; {})", e, src, what), &input); }
        }
        None => {
            if o.rewritten != used {
                // allowed differences: non-minimal frame number, non-zero padding bits
                let lead = used.get(4).copied().unwrap_or(0);
                let num_len = if lead & 0x80 == 0 { 1 } else { (lead.leading_ones() as usize).clamp(2, 7) };
                let nonminimal = num_len != min_number_len(fr.header.frame_number.0);
                let only_tail = o.rewritten.len() == used.len() && used.len() >= 3 && o.rewritten[..used.len() - 3] == used[..used.len() - 3];
                // the header bit after the bits-per-sample code is documented by the crate as
                // "padding (0)": a set bit there falls under the property's zero-padding proviso
                let header_pad_set = used.get(3).map(|b| b & 1 == 1).unwrap_or(false);
                if nonminimal || only_tail || header_pad_set { st.skipped_rewrite_nonminimal += 1; }
                else {
                    let at = o.rewritten.iter().zip(used.iter()).position(|(a, b)| a != b).unwrap_or(o.rewritten.len().min(used.len()));
                    out.viol("struct-rewrite-differs", &format!("Frame::write of the parsed frame gives {} bytes, the original has {}; first difference at byte {} ({}; {})", o.rewritten.len(), used.len(), at, src, what), &[("src", esc(src)), ("bytes", esc(&hex(used))), ("rewritten", esc(&hex(&o.rewritten)))]);
                }
            }
        }
    }
    // ---- sample expansion
    let bs = u16::from(fr.header.block_size) as usize;
    let mut expansion_ok = true;
    match (&o.decoded, &o.decode_panic) {
        (_, Some(p)) => { expansion_ok = false; out.viol_panic("struct-decode", p, &format!("Subframe::decode panics on an accepted frame ({}; {}): {}", src, what, p), &input); }
        (Some(d), None) => {
            for (k, c) in d.iter().enumerate() {
                if c.len() != bs {
                    expansion_ok = false;
                    out.viol("struct-subframe-length", &format!("subframe {} of an accepted frame expands to {} samples, block size is {} ({}; {})", k, c.len(), bs, src, what), &input);
                    break;
                }
            }
        }
        _ => {}
    }
    // ---- agreement with the streaming decoder
    match &dec_end {
        End::Panic(p) => out.viol_panic("parity-decoder", p, &format!("streaming decoder panics on a frame the structural parser accepts ({}; {}): {}", src, what, p), &input),
        End::Err(e) => out.viol(&format!("parity-parser-accepts-decoder-rejects:{}", e.split(':').next().unwrap_or("")), &format!("structural parser accepts a frame the streaming decoder rejects with {} ({}; {})", e, src, what), &input),
        End::Eof => {
            if expansion_ok {
                if let Some(d) = &o.decoded {
                    if let Some(inter) = undo_decorrelation(&fr.header.channel_assignment, d) {
                        // decorrelation is undone with exact integers; it is compared when the result
                        // fits the frame's bit depth (always true of valid frames).  Out-of-range
                        // results only arise from malformed frames, where the decoder's modulo-2^32
                        // arithmetic is not something the property fixes.
                        let bps: u32 = fr.header.bits_per_sample.into();
                        let fits = inter.iter().all(|v| *v >= -(1i64 << (bps - 1)) && *v < (1i64 << (bps - 1)));
                        if !fits { st.skipped_out_of_range += 1; }
                        else {
                            let a: Vec<i32> = inter.iter().map(|v| *v as i32).collect();
                            if a != dec_samples {
                                let at = a.iter().zip(dec_samples.iter()).position(|(x, y)| x != y).unwrap_or(a.len().min(dec_samples.len()));
                                out.viol("struct-decode-differs-from-decoder", &format!("structural expansion ({} samples) and streaming decoder ({} samples) differ at index {} ({}; {})", a.len(), dec_samples.len(), at, src, what), &input);
                            }
                        }
                    }
                }
            }
        }
    }
}

fn frames_of_file(bytes: &[u8]) -> Option<(Si, Vec<usize>)> {
    let rs = shared::refdec::stream(bytes).ok();
    let (si, start) = match &rs {
        Some(rs) => (rs.si.clone(), rs.audio_start),
        None => return None,
    };
    let mut offs = vec![start];
    for f in &rs.as_ref().unwrap().frames { let l = *offs.last().unwrap() + f.len; offs.push(l); }
    Some((Si { min_bs: si.min_bs as u16, max_bs: si.max_bs as u16, min_fs: si.min_fs, max_fs: si.max_fs, rate: si.rate, ch: si.ch as u8, bps: si.bps, total: si.total, md5: si.md5 }, offs))
}

fn main() {
    hook_panics();
    let seed = env_seed();
    let thorough = env_tier_thorough();
    let mut out = Out::new();
    let mut rng = Rng::new(seed, 0xC17);
    let kinds = all_kinds();
    let known = probe_known();
    clear_panic_loc();
    let mut st = St { frames: 0, accepted: 0, rejected_both: 0, by_src: Default::default(), struct_errs: Default::default(), cases: 0, cases_encoder: 0, max_cases: scale(if thorough { 2500 } else { 300 }), skipped_rewrite_nonminimal: 0, skipped_out_of_range: 0, parity_skipped_resync: 0 };

    // ---- (1) the crate's own output over the C01 space
    let n1 = scale(if thorough { 15000 } else { 350 });
    for i in 0..n1 {
        let mut cfg = random_cfg(&mut rng, &known);
        if i % 3 != 0 { cfg.bs = rng.range(16, 96) as u16; }
        let kind = kinds[i % kinds.len()];
        let budget = (if thorough { 30000 } else { 6000 }) / cfg.ch as usize;
        let n = rng.range(1, (cfg.bs as usize * 3).min(budget).max(2) as i64) as usize;
        let pcm = gen_pcm_ext(&mut rng, kind, cfg.ch as usize, cfg.bps, n);
        let Ok(file) = encode_to_vec(WRITERS[i % 4], &cfg, &pcm, &[pcm.len()]) else { continue };
        // frame boundaries from the crate's own iterator (refdec may reject the file: C02's business)
        let Some(bounds) = frame_boundaries(&file) else { continue };
        let si = Si { min_bs: cfg.bs, max_bs: cfg.bs, min_fs: 0, max_fs: 0, rate: cfg.rate, ch: cfg.ch, bps: cfg.bps, total: 0, md5: [0; 16] };
        for w in bounds.windows(2) {
            check_frame(&mut out, &mut st, "encoder", &file[w[0]..w[1]], Some(&si), &format!("{} {}ch {}bps bs{}", kind, cfg.ch, cfg.bps, cfg.bs));
        }
    }

    // ---- (2) generator-made valid frames (files and subset streams)
    let n2 = scale(if thorough { 20000 } else { 450 });
    for i in 0..n2 {
        if i % 2 == 0 {
            let ch = match rng.below(4) { 0 => 1, 1 | 2 => 2, _ => rng.range(1, 8) as usize };
            let bps = match rng.below(3) { 0 => 32, 1 => *rng.pick(&[8u32, 12, 16, 20, 24]), _ => rng.range(1, 32) as u32 };
            let variable = rng.chance(1, 3);
            let b0 = rng.range(16, 70) as usize;
            let blocks = if variable { vec![b0, rng.range(16, 70) as usize, rng.range(1, 70) as usize] } else { vec![b0, b0, rng.range(1, b0 as i64) as usize] };
            let rate = pick_rate(&mut rng);
            let g = gen_file(&mut rng, &GenCfg::default(), kinds[i % kinds.len()], ch, bps, rate, &blocks, variable, false, false);
            for w in g.offsets.windows(2) { check_frame(&mut out, &mut st, "generator-file", &g.bytes[w[0]..w[1]], Some(&g.si), &g.tags.join(" ")); }
        } else {
            let g = gen_subset(&mut rng, &GenCfg { subset: true, ..GenCfg::default() }, 2, 60);
            for w in g.offsets.windows(2) { check_frame(&mut out, &mut st, "generator-subset", &g.bytes[w[0]..w[1]], None, &g.tags.join(" ")); }
        }
    }

    // ---- (3) checksum-valid malformed frames: one-field mutations
    let n3 = scale(if thorough { 60000 } else { 1500 });
    let mut done = 0;
    while done < n3 {
        let g = gen_subset(&mut rng, &GenCfg { subset: true, allow_pred_overflow: false, max_unary: 60 }, 1, 40);
        let o = struct_obs(&g.bytes, None);
        let Some(fr) = o.frame else { continue };
        let fields = fields_of_frame(&fr);
        for _ in 0..6 {
            let mut fl = fields.clone();
            let what = mutate_one(&mut rng, &mut fl);
            let raw = serialise(&fl);
            check_frame(&mut out, &mut st, "field-mutation", &raw, None, &what);
            done += 1;
        }
    }

    // ---- (4) constructed layouts the parser is known to mis-handle (partition lengths from
    //          block_size / 2^order with no divisibility / total check)
    let mono = ChannelAssignment::Independent(Independent::Mono);
    let mk = |n: u16, parts: Vec<usize>, order: u8| -> Frame {
        let partitions: Vec<ResidualPartition<0b1111, i32>> = parts.iter().map(|l| ResidualPartition::Standard { rice: BitCount::<0b1111>::try_from(2).unwrap(), residuals: vec![1; *l] }).collect();
        Frame {
            header: FrameHeader { blocking_strategy: false, block_size: flac_codec::stream::BlockSize::Uncommon8(n), sample_rate: flac_codec::stream::SampleRate::Hz44100, channel_assignment: mono, bits_per_sample: flac_codec::stream::BitsPerSample::Bps16, frame_number: FrameNumber(0) },
            subframes: vec![SubframeWidth::Common(Subframe::Fixed { order, warm_up: vec![0; order as usize], residuals: Residuals::Method0 { partitions }, wasted_bps: 0 })],
        }
    };
    for (n, parts, order, what) in [
        (1u16, vec![0usize, 0], 0u8, "block of 1 sample, partition order 1 (2 empty partitions)"),
        (3, vec![1, 1], 0, "block of 3 samples, partition order 1 (1+1 residuals)"),
        (17, vec![7, 8], 1, "block of 17 samples, FIXED order 1, partition order 1 (7+8 residuals)"),
        (6, vec![1, 1, 1, 1], 0, "block of 6 samples, partition order 2 (4x1 residuals)"),
        (8, vec![0, 4], 4, "block of 8 samples, FIXED order 4, partition order 1 (first partition empty)"),
        (16, vec![0; 32], 0, "block of 16 samples, partition order 5 (32 empty partitions)"),
    ] {
        let fr = mk(n, parts, order);
        let raw = serialise(&fields_of_frame(&fr));
        check_frame(&mut out, &mut st, "constructed-layout", &raw, None, what);
    }

    let m = |m: &BTreeMap<String, usize>| format!("{{{}}}", m.iter().map(|(k, v)| format!("{}:{}", esc(k), v)).collect::<Vec<_>>().join(","));
    let _ = frames_of_file;
    println!(
        "{}",
        obj(&[
            ("t", esc("stat")), ("profile", esc(profile())), ("frames", st.frames.to_string()), ("accepted_by_parser", st.accepted.to_string()), ("rejected_by_both", st.rejected_both.to_string()),
            ("by_source", m(&st.by_src)), ("parser_errors", m(&st.struct_errs)), ("rewrite_skipped_nonminimal_or_padding", st.skipped_rewrite_nonminimal.to_string()), ("decorrelation_compare_skipped_out_of_range", st.skipped_out_of_range.to_string()), ("parity_skipped_resync", st.parity_skipped_resync.to_string()),
            ("cases_emitted", out.cases.to_string()), ("viols", out.viols.to_string()), ("viol_keys", out.counts()),
        ])
    );
}
